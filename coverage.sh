#!/bin/bash
# Informational (never a verdict): line coverage of /repo's sources reached by the native quick runs of the
# checks given as arguments (default: all). Builds the harness with -Cinstrument-coverage in its own target dir
# (harness/target-cov, git-ignored), runs `vh <ID> --scale 0.2`, merges the profiles and writes
# /verif/coverage/<ID>.txt (per-file summary for /repo/*/src) and /verif/coverage/ALL.txt.
set -u
cd "$(dirname "$0")/harness"
BIN=$(rustc +nightly --print sysroot)/lib/rustlib/x86_64-unknown-linux-gnu/bin
export CARGO_NET_OFFLINE=true CARGO_TARGET_DIR=target-cov RUSTFLAGS="-Cinstrument-coverage"
cargo +nightly build --release --offline --quiet --bin vh || { echo "coverage build failed"; exit 2; }
mkdir -p ../coverage target-cov/prof
ids=${@:-C01 C02 C03 C04 C05 C06 C07 C08 C09 C10 C11 C12 C13 C14 C15 C16 C17 C18 C19 C20}
for id in $ids; do
  rm -f target-cov/prof/$id-*.profraw
  LLVM_PROFILE_FILE="target-cov/prof/$id-%p.profraw" ./target-cov/release/vh $id --scale 0.2 --max-schedules 30 --replay-dir /tmp/cov-replays > /dev/null 2>&1
  $BIN/llvm-profdata merge -sparse target-cov/prof/$id-*.profraw -o target-cov/prof/$id.profdata
  $BIN/llvm-cov report ./target-cov/release/vh -instr-profile=target-cov/prof/$id.profdata $(ls /repo/eyeball/src/*.rs /repo/eyeball/src/*/*.rs /repo/eyeball-im/src/*.rs /repo/eyeball-im/src/*/*.rs /repo/eyeball-im-util/src/*/*.rs) 2>/dev/null | sed 's#/repo/##' > ../coverage/$id.txt
  echo "$id: $(grep TOTAL ../coverage/$id.txt | awk '{print "lines", $8, "missed", $9, "cover", $10}')"
done
$BIN/llvm-profdata merge -sparse target-cov/prof/*.profdata -o target-cov/prof/ALL.profdata
$BIN/llvm-cov report ./target-cov/release/vh -instr-profile=target-cov/prof/ALL.profdata $(ls /repo/eyeball/src/*.rs /repo/eyeball/src/*/*.rs /repo/eyeball-im/src/*.rs /repo/eyeball-im/src/*/*.rs /repo/eyeball-im-util/src/*/*.rs) 2>/dev/null | sed 's#/repo/##' > ../coverage/ALL.txt
tail -3 ../coverage/ALL.txt
