#!/bin/bash
# MANIFEST.setup_cmd: warm-build the harness offline (native release, Miri, ThreadSanitizer, AddressSanitizer
# builds, each in its own git-ignored target directory). ./check rebuilds whatever is stale or missing.
set -e
cd "$(dirname "$0")/harness"
export CARGO_NET_OFFLINE=true
cargo build --release --offline
CARGO_TARGET_DIR=target-small cargo build --release --offline --quiet --features small-elements
CARGO_TARGET_DIR=target-big cargo build --release --offline --quiet --features big-elements
CARGO_TARGET_DIR=target-huge cargo build --release --offline --quiet --features huge-elements
CARGO_TARGET_DIR=target-plain cargo build --profile plain --offline --quiet
CARGO_TARGET_DIR=target-feat cargo build --release --offline --quiet --features lib-features
( MIRIFLAGS="-Zmiri-tree-borrows -Zmiri-disable-isolation" CARGO_TARGET_DIR=target-miri cargo +nightly miri run --offline --quiet --bin vh -- WARMUP ) || echo "warning: miri warm-up failed (checks will retry)"
( RUSTFLAGS="-Zsanitizer=thread" CARGO_TARGET_DIR=target-tsan cargo +nightly build --release --offline --quiet -Zbuild-std --target x86_64-unknown-linux-gnu --bin vh ) || echo "warning: tsan warm-up failed (checks will retry)"
( RUSTFLAGS="-Zsanitizer=address -Cforce-frame-pointers=yes" CARGO_TARGET_DIR=target-asan cargo +nightly build --release --offline --quiet --target x86_64-unknown-linux-gnu --bin vh ) || echo "warning: asan warm-up failed (checks will retry)"
echo "setup ok"
