//! Sequential Observable / SharedObservable engine for both lock flavours: executes a call history on
//! the real types and compares every return value, poll result, wake flag, end-of-stream and count
//! with a small executable model (C01, C02a, C03a, C16 differential, C19, C20).

use std::{
    future::Future,
    hash::{Hash, Hasher},
    pin::{pin, Pin},
    sync::Arc,
    task::{Context, Poll},
};

use eyeball::{AsyncLock, Observable, ObservableWriteGuard, SharedObservable, Subscriber, SyncLock, WeakObservable};
use futures_core::Stream;

use crate::{common::*, engine_vec::Div};

// ---------------------------------------------------------------------------------------------
// payload: hash looks at `key` only, equality at both fields

#[derive(Clone, Debug)]
pub struct Hk {
    pub key: u8,
    pub tr: Tracked,
}
impl Hk {
    pub fn new(v: Val) -> Self {
        Hk { key: v.0, tr: Tracked::new(v.1) }
    }
    pub fn val(&self) -> Val {
        (self.key, self.tr.v)
    }
}
impl PartialEq for Hk {
    fn eq(&self, o: &Self) -> bool {
        self.key == o.key && self.tr.v == o.tr.v
    }
}
impl Hash for Hk {
    fn hash<H: Hasher>(&self, h: &mut H) {
        self.key.hash(h)
    }
}
impl Default for Hk {
    fn default() -> Self {
        Hk::new((0, 0))
    }
}

/// (key, payload)
pub type Val = (u8, u32);

pub fn hash_val(v: Val) -> u64 {
    // the same hasher the library uses, over the same Hash impl
    let mut h = std::collections::hash_map::DefaultHasher::new();
    v.0.hash(&mut h);
    h.finish()
}

// ---------------------------------------------------------------------------------------------
// operations

#[derive(Clone, Debug, PartialEq, Eq, Hash)]
pub enum GOp {
    Set(Val),
    SetIfNotEq(Val),
    SetIfHashNotEq(Val),
    Take,
    Update(Val),
    UpdateIf(Val, bool, bool),
    /// try_read / try_write from another handle while the write guard is held: must not succeed
    TryOthers,
}

#[derive(Clone, Debug, PartialEq, Eq, Hash)]
pub enum OOp {
    Set(usize, Val),
    SetIfNotEq(usize, Val),
    SetIfHashNotEq(usize, Val),
    Take(usize),
    Update(usize, Val),
    /// closure stores the value if `mutate`, returns `ret`
    UpdateIf(usize, Val, bool, bool),
    Guard(usize, Vec<GOp>),
    /// hold a read guard, check try_write fails / try_read works, read the value
    ReadGuard(usize),
    Get(usize),
    Read(usize),
    /// try_read (must succeed, value compared), then try_write (must succeed) and set through it
    TryGuards(usize, Val),
    Clone(usize),
    /// `Clone::clone_from`: handle h is re-pointed to a fresh, unrelated observable (if it was the last
    /// owner, this observable is closed by that)
    CloneFromOther(usize),
    /// handle traffic while a write (true) / read (false) guard is alive: 0 = clone+drop, 1 = drop another
    /// owner, 2 = downgrade+upgrade+drop
    HandlesUnderGuard(usize, bool, u8),
    /// like DropOwner, but the handle is dropped while its thread unwinds from a panic
    DropOwnerUnwinding(usize),
    /// `Clone::clone_from` on a subscriber: subscriber i is re-pointed to a subscriber of a fresh observable
    SubCloneFromOther(usize),
    DropOwner(usize),
    Downgrade(usize),
    Upgrade(usize),
    CloneWeak(usize),
    DropWeak(usize),
    IntoShared,
    Subscribe(usize),
    SubscribeReset(usize),
    Poll(usize),
    PollNext(usize),
    PollNextRef(usize),
    NextNow(usize),
    NextRefNow(usize),
    SGet(usize),
    SRead(usize),
    Reset(usize),
    SClone(usize),
    SCloneReset(usize),
    SDrop(usize),
}

#[derive(Clone, Debug, Hash)]
pub struct ObsHistory {
    pub shared: bool,
    pub init: Val,
    pub ops: Vec<OOp>,
    /// 0 = the usual bounds (5 subscribers, 4 owners, 3 weak references); otherwise the bound for all three
    pub many: usize,
    /// every subscriber is polled with one and the same waker (its own) for the whole history
    pub same_waker: bool,
}

impl ObsHistory {
    pub fn show(&self) -> Vec<String> {
        let mut v = vec![format!("{}::new({:?})", if self.shared { "SharedObservable" } else { "Observable" }, self.init)];
        v.extend(self.ops.iter().map(|o| format!("{o:?}")));
        v
    }
}

// ---------------------------------------------------------------------------------------------
// flavour abstraction

pub trait Fl {
    const ASYNC: bool;
    type U;
    type S;
    type W;
    type Sub;
    fn new_u(v: Hk) -> Self::U;
    fn new_s(v: Hk) -> Self::S;
    fn u_set(u: &mut Self::U, v: Hk) -> Hk;
    fn u_set_if_not_eq(u: &mut Self::U, v: Hk) -> Option<Hk>;
    fn u_set_if_hash_not_eq(u: &mut Self::U, v: Hk) -> Option<Hk>;
    fn u_take(u: &mut Self::U) -> Hk;
    fn u_update(u: &mut Self::U, f: &mut dyn FnMut(&mut Hk));
    fn u_update_if(u: &mut Self::U, f: &mut dyn FnMut(&mut Hk) -> bool);
    fn u_get(u: &Self::U) -> Val;
    fn u_subscribe(u: &Self::U) -> Self::Sub;
    fn u_subscribe_reset(u: &Self::U) -> Self::Sub;
    fn u_subscriber_count(u: &Self::U) -> usize;
    fn u_into_shared(u: Self::U) -> Self::S;
    fn s_set(s: &Self::S, v: Hk) -> Hk;
    fn s_set_if_not_eq(s: &Self::S, v: Hk) -> Option<Hk>;
    fn s_set_if_hash_not_eq(s: &Self::S, v: Hk) -> Option<Hk>;
    fn s_take(s: &Self::S) -> Hk;
    fn s_update(s: &Self::S, f: &mut dyn FnMut(&mut Hk));
    fn s_update_if(s: &Self::S, f: &mut dyn FnMut(&mut Hk) -> bool);
    fn s_get(s: &Self::S) -> Val;
    fn s_read(s: &Self::S) -> Val;
    /// take the write guard on `s`, run the guard operations, drop it. `other` is another handle to
    /// the same state (or the same one) for the try_* probes.
    fn s_guard(s: &Self::S, other: &Self::S, ops: &[GOp], results: &mut Vec<Res>);
    /// hold a read guard: (value read, try_write failed, try_read worked)
    fn s_read_guard(s: &Self::S, other: &Self::S) -> (Val, bool, bool);
    /// no guard is held: try_read and try_write must both succeed; returns (value read, previous value of the set)
    fn s_try_guards(s: &Self::S, v: Hk) -> Option<(Val, Val)>;
    fn new_u_default() -> Self::U;
    fn new_s_default() -> Self::S;
    fn s_clone(s: &Self::S) -> Self::S;
    fn s_clone_from(a: &mut Self::S, b: &Self::S);
    /// run `f` while a write / read guard taken through `s` is alive
    fn s_under_guard(s: &Self::S, write: bool, f: &mut dyn FnMut());
    /// tag (element identity) of the value currently stored
    fn s_tag(s: &Self::S) -> u32;
    fn u_tag(u: &Self::U) -> u32;
    fn s_downgrade(s: &Self::S) -> Self::W;
    fn s_counts(s: &Self::S) -> (usize, usize, usize, usize);
    fn s_subscribe(s: &Self::S) -> Self::Sub;
    fn s_subscribe_reset(s: &Self::S) -> Self::Sub;
    fn w_upgrade(w: &Self::W) -> Option<Self::S>;
    fn w_clone(w: &Self::W) -> Self::W;
    fn sub_poll_stream(s: &mut Self::Sub, cx: &mut Context<'_>) -> Poll<Option<Val>>;
    fn sub_poll_next(s: &mut Self::Sub, cx: &mut Context<'_>) -> Poll<Option<Val>>;
    fn sub_poll_next_ref(s: &mut Self::Sub, cx: &mut Context<'_>) -> Poll<Option<Val>>;
    fn sub_next_now(s: &mut Self::Sub) -> Val;
    fn sub_next_ref_now(s: &mut Self::Sub) -> Val;
    fn sub_get(s: &Self::Sub) -> Val;
    fn sub_read(s: &Self::Sub) -> Val;
    fn sub_reset(s: &mut Self::Sub);
    fn sub_clone(s: &Self::Sub) -> Self::Sub;
    fn sub_clone_from(a: &mut Self::Sub, b: &Self::Sub);
    fn sub_clone_reset(s: &Self::Sub) -> Self::Sub;
}

macro_rules! guard_ops_impl {
    ($name:ident, $L:ty) => {
        fn $name(
            g: &mut ObservableWriteGuard<'_, Hk, $L>,
            ops: &[GOp],
            results: &mut Vec<Res>,
            try_others: &mut dyn FnMut() -> bool,
        ) {
            for op in ops {
                match op {
                    GOp::Set(v) => results.push(Res::Prev(ObservableWriteGuard::set(g, Hk::new(*v)).val())),
                    GOp::SetIfNotEq(v) => results
                        .push(Res::OptPrev(ObservableWriteGuard::set_if_not_eq(g, Hk::new(*v)).map(|h| h.val()))),
                    GOp::SetIfHashNotEq(v) => results.push(Res::OptPrev(
                        ObservableWriteGuard::set_if_hash_not_eq(g, Hk::new(*v)).map(|h| h.val()),
                    )),
                    GOp::Take => results.push(Res::Prev(ObservableWriteGuard::take(g).val())),
                    GOp::Update(v) => {
                        ObservableWriteGuard::update(g, |x| *x = Hk::new(*v));
                        results.push(Res::Unit)
                    }
                    GOp::UpdateIf(v, m, r) => {
                        ObservableWriteGuard::update_if(g, |x| {
                            if *m {
                                *x = Hk::new(*v);
                            }
                            *r
                        });
                        results.push(Res::Unit)
                    }
                    GOp::TryOthers => results.push(Res::Flag(try_others())),
                }
                // the guard dereferences to the value
                results.push(Res::Value((**g).val()));
            }
        }
    };
}
guard_ops_impl!(guard_ops_sync, SyncLock);
guard_ops_impl!(guard_ops_async, AsyncLock);

/// what a call handed back (values only)
#[derive(Clone, Debug, PartialEq, Eq)]
pub enum Res {
    Unit,
    Value(Val),
    Prev(Val),
    OptPrev(Option<Val>),
    Flag(bool),
    PollR(Option<Option<Val>>),
    Counts(usize, usize, usize, usize),
    UCount(usize),
    Upgraded(bool),
    Skipped,
}

fn poll_fut<F: Future>(f: F, cx: &mut Context<'_>) -> Poll<F::Output> {
    let mut f = pin!(f);
    f.as_mut().poll(cx)
}

// --- sync flavour ----------------------------------------------------------------------------

pub struct SyncFl;

impl Fl for SyncFl {
    const ASYNC: bool = false;
    type U = Observable<Hk>;
    type S = SharedObservable<Hk>;
    type W = WeakObservable<Hk>;
    type Sub = Subscriber<Hk>;
    fn new_u(v: Hk) -> Self::U {
        Observable::new(v)
    }
    fn new_s(v: Hk) -> Self::S {
        SharedObservable::new(v)
    }
    fn u_set(u: &mut Self::U, v: Hk) -> Hk {
        Observable::set(u, v)
    }
    fn u_set_if_not_eq(u: &mut Self::U, v: Hk) -> Option<Hk> {
        Observable::set_if_not_eq(u, v)
    }
    fn u_set_if_hash_not_eq(u: &mut Self::U, v: Hk) -> Option<Hk> {
        Observable::set_if_hash_not_eq(u, v)
    }
    fn u_take(u: &mut Self::U) -> Hk {
        Observable::take(u)
    }
    fn u_update(u: &mut Self::U, f: &mut dyn FnMut(&mut Hk)) {
        Observable::update(u, |x| f(x))
    }
    fn u_update_if(u: &mut Self::U, f: &mut dyn FnMut(&mut Hk) -> bool) {
        Observable::update_if(u, |x| f(x))
    }
    fn u_get(u: &Self::U) -> Val {
        let a = Observable::get(u).val();
        let b = (**u).val();
        assert_eq!(a, b, "Observable::get and Deref disagree");
        a
    }
    fn u_subscribe(u: &Self::U) -> Self::Sub {
        Observable::subscribe(u)
    }
    fn u_subscribe_reset(u: &Self::U) -> Self::Sub {
        Observable::subscribe_reset(u)
    }
    fn u_subscriber_count(u: &Self::U) -> usize {
        Observable::subscriber_count(u)
    }
    fn u_into_shared(u: Self::U) -> Self::S {
        Observable::into_shared(u)
    }
    fn s_set(s: &Self::S, v: Hk) -> Hk {
        s.set(v)
    }
    fn s_set_if_not_eq(s: &Self::S, v: Hk) -> Option<Hk> {
        s.set_if_not_eq(v)
    }
    fn s_set_if_hash_not_eq(s: &Self::S, v: Hk) -> Option<Hk> {
        s.set_if_hash_not_eq(v)
    }
    fn s_take(s: &Self::S) -> Hk {
        s.take()
    }
    fn s_update(s: &Self::S, f: &mut dyn FnMut(&mut Hk)) {
        s.update(|x| f(x))
    }
    fn s_update_if(s: &Self::S, f: &mut dyn FnMut(&mut Hk) -> bool) {
        s.update_if(|x| f(x))
    }
    fn s_get(s: &Self::S) -> Val {
        s.get().val()
    }
    fn s_read(s: &Self::S) -> Val {
        s.read().val()
    }
    fn s_guard(s: &Self::S, other: &Self::S, ops: &[GOp], results: &mut Vec<Res>) {
        let mut g = s.write();
        guard_ops_sync(&mut g, ops, results, &mut || other.try_read().is_ok() || other.try_write().is_ok());
        drop(g);
    }
    fn s_read_guard(s: &Self::S, other: &Self::S) -> (Val, bool, bool) {
        let g = s.read();
        let tw_failed = other.try_write().is_err();
        let tr_ok = other.try_read().is_ok();
        let v = g.val();
        drop(g);
        (v, tw_failed, tr_ok)
    }
    fn s_try_guards(s: &Self::S, v: Hk) -> Option<(Val, Val)> {
        let r = s.try_read().ok()?.val();
        let mut w = s.try_write().ok()?;
        let prev = ObservableWriteGuard::set(&mut w, v).val();
        Some((r, prev))
    }
    fn new_u_default() -> Self::U {
        Default::default()
    }
    fn new_s_default() -> Self::S {
        Default::default()
    }
    fn s_clone(s: &Self::S) -> Self::S {
        s.clone()
    }
    fn s_clone_from(a: &mut Self::S, b: &Self::S) {
        a.clone_from(b)
    }
    fn s_under_guard(s: &Self::S, write: bool, f: &mut dyn FnMut()) {
        // a panic inside `f` must not unwind through the write guard (std's RwLock would be poisoned and the
        // library's own destructors, which lock it, would then panic during cleanup = abort)
        if write {
            let g = s.write();
            let r = std::panic::catch_unwind(std::panic::AssertUnwindSafe(|| f()));
            drop(g);
            if let Err(e) = r {
                std::panic::resume_unwind(e);
            }
        } else {
            let g = s.read();
            let r = std::panic::catch_unwind(std::panic::AssertUnwindSafe(|| f()));
            drop(g);
            if let Err(e) = r {
                std::panic::resume_unwind(e);
            }
        }
    }
    fn s_tag(s: &Self::S) -> u32 {
        s.read().tr.tag()
    }
    fn u_tag(u: &Self::U) -> u32 {
        Observable::get(u).tr.tag()
    }
    fn s_downgrade(s: &Self::S) -> Self::W {
        s.downgrade()
    }
    fn s_counts(s: &Self::S) -> (usize, usize, usize, usize) {
        (s.observable_count(), s.subscriber_count(), s.strong_count(), s.weak_count())
    }
    fn s_subscribe(s: &Self::S) -> Self::Sub {
        s.subscribe()
    }
    fn s_subscribe_reset(s: &Self::S) -> Self::Sub {
        s.subscribe_reset()
    }
    fn w_upgrade(w: &Self::W) -> Option<Self::S> {
        w.upgrade()
    }
    fn w_clone(w: &Self::W) -> Self::W {
        w.clone()
    }
    fn sub_poll_stream(s: &mut Self::Sub, cx: &mut Context<'_>) -> Poll<Option<Val>> {
        Pin::new(s).poll_next(cx).map(|o| o.map(|h| h.val()))
    }
    fn sub_poll_next(s: &mut Self::Sub, cx: &mut Context<'_>) -> Poll<Option<Val>> {
        poll_fut(s.next(), cx).map(|o| o.map(|h| h.val()))
    }
    fn sub_poll_next_ref(s: &mut Self::Sub, cx: &mut Context<'_>) -> Poll<Option<Val>> {
        poll_fut(s.next_ref(), cx).map(|o| o.map(|g| g.val()))
    }
    fn sub_next_now(s: &mut Self::Sub) -> Val {
        s.next_now().val()
    }
    fn sub_next_ref_now(s: &mut Self::Sub) -> Val {
        s.next_ref_now().val()
    }
    fn sub_get(s: &Self::Sub) -> Val {
        s.get().val()
    }
    fn sub_read(s: &Self::Sub) -> Val {
        s.read().val()
    }
    fn sub_reset(s: &mut Self::Sub) {
        s.reset()
    }
    fn sub_clone_from(a: &mut Self::Sub, b: &Self::Sub) {
        a.clone_from(b)
    }
    fn sub_clone(s: &Self::Sub) -> Self::Sub {
        s.clone()
    }
    fn sub_clone_reset(s: &Self::Sub) -> Self::Sub {
        s.clone_reset()
    }
}

// --- async flavour: every future is driven by the hand executor ------------------------------

pub struct AsyncFl;

fn bo<F: Future>(f: F) -> F::Output {
    match block_on(f) {
        Ok(v) => v,
        Err(e) => panic!("async-lock flavour: {e} although no guard is held"),
    }
}

impl Fl for AsyncFl {
    const ASYNC: bool = true;
    type U = Observable<Hk, AsyncLock>;
    type S = SharedObservable<Hk, AsyncLock>;
    type W = WeakObservable<Hk, AsyncLock>;
    type Sub = Subscriber<Hk, AsyncLock>;
    fn new_u(v: Hk) -> Self::U {
        Observable::new_async(v)
    }
    fn new_s(v: Hk) -> Self::S {
        SharedObservable::new_async(v)
    }
    fn u_set(u: &mut Self::U, v: Hk) -> Hk {
        bo(Observable::set_async(u, v))
    }
    fn u_set_if_not_eq(u: &mut Self::U, v: Hk) -> Option<Hk> {
        bo(Observable::set_if_not_eq_async(u, v))
    }
    fn u_set_if_hash_not_eq(u: &mut Self::U, v: Hk) -> Option<Hk> {
        bo(Observable::set_if_hash_not_eq_async(u, v))
    }
    fn u_take(u: &mut Self::U) -> Hk {
        bo(Observable::take_async(u))
    }
    fn u_update(u: &mut Self::U, f: &mut dyn FnMut(&mut Hk)) {
        bo(Observable::update_async(u, |x| f(x)))
    }
    fn u_update_if(u: &mut Self::U, f: &mut dyn FnMut(&mut Hk) -> bool) {
        bo(Observable::update_if_async(u, |x| f(x)))
    }
    fn u_get(u: &Self::U) -> Val {
        Observable::get_async(u).val()
    }
    fn u_subscribe(u: &Self::U) -> Self::Sub {
        Observable::subscribe_async(u)
    }
    fn u_subscribe_reset(u: &Self::U) -> Self::Sub {
        Observable::subscribe_reset_async(u)
    }
    fn u_subscriber_count(u: &Self::U) -> usize {
        Observable::subscriber_count(u)
    }
    fn u_into_shared(u: Self::U) -> Self::S {
        Observable::into_shared(u)
    }
    fn s_set(s: &Self::S, v: Hk) -> Hk {
        bo(s.set(v))
    }
    fn s_set_if_not_eq(s: &Self::S, v: Hk) -> Option<Hk> {
        bo(s.set_if_not_eq(v))
    }
    fn s_set_if_hash_not_eq(s: &Self::S, v: Hk) -> Option<Hk> {
        bo(s.set_if_hash_not_eq(v))
    }
    fn s_take(s: &Self::S) -> Hk {
        bo(s.take())
    }
    fn s_update(s: &Self::S, f: &mut dyn FnMut(&mut Hk)) {
        bo(s.update(|x| f(x)))
    }
    fn s_update_if(s: &Self::S, f: &mut dyn FnMut(&mut Hk) -> bool) {
        bo(s.update_if(|x| f(x)))
    }
    fn s_get(s: &Self::S) -> Val {
        bo(s.get()).val()
    }
    fn s_read(s: &Self::S) -> Val {
        bo(s.read()).val()
    }
    fn s_guard(s: &Self::S, other: &Self::S, ops: &[GOp], results: &mut Vec<Res>) {
        let mut g = bo(s.write());
        guard_ops_async(&mut g, ops, results, &mut || other.try_read().is_some() || other.try_write().is_some());
        drop(g);
    }
    fn s_read_guard(s: &Self::S, other: &Self::S) -> (Val, bool, bool) {
        let g = bo(s.read());
        let tw_failed = other.try_write().is_none();
        let tr_ok = other.try_read().is_some();
        let v = g.val();
        drop(g);
        (v, tw_failed, tr_ok)
    }
    fn s_try_guards(s: &Self::S, v: Hk) -> Option<(Val, Val)> {
        let r = s.try_read()?.val();
        let mut w = s.try_write()?;
        let prev = ObservableWriteGuard::set(&mut w, v).val();
        Some((r, prev))
    }
    fn new_u_default() -> Self::U {
        Default::default()
    }
    fn new_s_default() -> Self::S {
        Default::default()
    }
    fn s_clone(s: &Self::S) -> Self::S {
        s.clone()
    }
    fn s_clone_from(a: &mut Self::S, b: &Self::S) {
        a.clone_from(b)
    }
    fn s_under_guard(s: &Self::S, write: bool, f: &mut dyn FnMut()) {
        if write {
            let g = bo(s.write());
            f();
            drop(g);
        } else {
            let g = bo(s.read());
            f();
            drop(g);
        }
    }
    fn s_tag(s: &Self::S) -> u32 {
        bo(s.read()).tr.tag()
    }
    fn u_tag(u: &Self::U) -> u32 {
        Observable::get_async(u).tr.tag()
    }
    fn s_downgrade(s: &Self::S) -> Self::W {
        s.downgrade()
    }
    fn s_counts(s: &Self::S) -> (usize, usize, usize, usize) {
        (s.observable_count(), s.subscriber_count(), s.strong_count(), s.weak_count())
    }
    fn s_subscribe(s: &Self::S) -> Self::Sub {
        bo(s.subscribe())
    }
    fn s_subscribe_reset(s: &Self::S) -> Self::Sub {
        s.subscribe_reset()
    }
    fn w_upgrade(w: &Self::W) -> Option<Self::S> {
        w.upgrade()
    }
    fn w_clone(w: &Self::W) -> Self::W {
        w.clone()
    }
    fn sub_poll_stream(s: &mut Self::Sub, cx: &mut Context<'_>) -> Poll<Option<Val>> {
        Pin::new(s).poll_next(cx).map(|o| o.map(|h| h.val()))
    }
    fn sub_poll_next(s: &mut Self::Sub, cx: &mut Context<'_>) -> Poll<Option<Val>> {
        poll_fut(s.next(), cx).map(|o| o.map(|h| h.val()))
    }
    fn sub_poll_next_ref(s: &mut Self::Sub, cx: &mut Context<'_>) -> Poll<Option<Val>> {
        poll_fut(s.next_ref(), cx).map(|o| o.map(|g| g.val()))
    }
    fn sub_next_now(s: &mut Self::Sub) -> Val {
        bo(s.next_now()).val()
    }
    fn sub_next_ref_now(s: &mut Self::Sub) -> Val {
        bo(s.next_ref_now()).val()
    }
    fn sub_get(s: &Self::Sub) -> Val {
        bo(s.get()).val()
    }
    fn sub_read(s: &Self::Sub) -> Val {
        bo(s.read()).val()
    }
    fn sub_reset(s: &mut Self::Sub) {
        s.reset()
    }
    fn sub_clone_from(a: &mut Self::Sub, b: &Self::Sub) {
        a.clone_from(b)
    }
    fn sub_clone(s: &Self::Sub) -> Self::Sub {
        s.clone()
    }
    fn sub_clone_reset(s: &Self::Sub) -> Self::Sub {
        s.clone_reset()
    }
}

// ---------------------------------------------------------------------------------------------
// model + executor

#[derive(Default, Debug, Clone)]
pub struct OFacts {
    pub ready: u64,
    pub pending: u64,
    pub none: u64,
    pub cond_not_stored: u64,
    pub cond_stored: u64,
    pub notifying: u64,
    pub silent_mutation: u64,
    pub wake_obligations: u64,
    pub max_pending_at_once: u64,
    pub closes: u64,
    pub upgrades_ok: u64,
    pub upgrades_none: u64,
    pub into_shared: u64,
    pub count_checks: u64,
    pub subs_created: u64,
    pub polls_after_end: u64,
    pub guard_ops: u64,
    pub states: Vec<u64>,
    pub trace: Vec<Res>,
}

struct SubM {
    observed: u64,
    /// flag of the last poll if Pending, with the model version at that poll and the flag's wake count
    /// at that poll
    pending: Option<(Arc<FlagWaker>, u64, u64)>,
    /// the subscriber's own waker in same-waker mode
    own: Option<(Arc<FlagWaker>, std::task::Waker)>,
    /// a local reset() since the last poll (next readiness needs no wake)
    dirty: bool,
}

struct World<F: Fl> {
    uniq: Option<F::U>,
    owners: Vec<F::S>,
    weaks: Vec<F::W>,
    subs: Vec<Option<F::Sub>>,
}

struct Model {
    value: Val,
    version: u64,
    closed: bool,
    unique: bool,
    subs: Vec<Option<SubM>>,
}

fn tag(asyncfl: bool, sync_tag: &'static str) -> &'static str {
    if !asyncfl {
        return sync_tag;
    }
    // a fault of the async-lock flavour violates C16 and the rule of the default flavour it departs from
    match sync_tag {
        "C01" => "C01|C16",
        "C02" => "C02|C16",
        "C03" => "C03|C16",
        "C19" => "C19|C16",
        "C04" => "C04|C16",
        "C01|C03" => "C01|C03|C16",
        "C02|C03" => "C02|C03|C16",
        "X-trylock" => "X-trylock",
        _ => "C16",
    }
}

pub fn run_obs_history<F: Fl>(h: &ObsHistory) -> Result<OFacts, Div> {
    table_reset();
    let r = run_inner::<F>(h);
    let (live, faults, ids) = table_finish();
    let r = r?;
    if let Some(f) = faults.first() {
        return Err(Div { prop: "C20", what: format!("{f} ({} fault(s))", faults.len()) });
    }
    if live != 0 {
        return Err(Div { prop: "C20", what: format!("{live} value(s) still alive after everything was dropped (ids {ids:?})") });
    }
    Ok(r)
}

fn run_inner<F: Fl>(h: &ObsHistory) -> Result<OFacts, Div> {
    // a bogus successful upgrade does not end the history: the handle is adopted so that the count monitors
    // keep judging; what they find is reported together with it
    let mut soft: Option<Div> = None;
    let r = run_inner2::<F>(h, &mut soft);
    match (r, soft) {
        (r, None) => r,
        (Ok(_), Some(s)) => Err(s),
        (Err(d), Some(s)) => {
            if d.prop.split('|').any(|t| t == "C19") && !s.prop.split('|').any(|t| t == "C19") {
                let prop: &'static str = Box::leak(format!("{}|C19", s.prop).into_boxed_str());
                Err(Div { prop, what: format!("{} (earlier: {})", d.what, s.what) })
            } else {
                Err(s)
            }
        }
    }
}

fn run_inner2<F: Fl>(h: &ObsHistory, soft: &mut Option<Div>) -> Result<OFacts, Div> {
    let a = F::ASYNC;
    let mut w: World<F> = World { uniq: None, owners: vec![], weaks: vec![], subs: vec![] };
    // the Default impls build the same thing as new(T::default())
    let by_default = h.init == (0, 0) && h.ops.len() % 2 == 1;
    if h.shared {
        w.owners.push(if by_default { F::new_s_default() } else { F::new_s(Hk::new(h.init)) });
    } else {
        w.uniq = Some(if by_default { F::new_u_default() } else { F::new_u(Hk::new(h.init)) });
    }
    let mut m = Model { value: h.init, version: 1, closed: false, unique: !h.shared, subs: vec![] };
    let mut f = OFacts::default();
    let mut bogus_upgrades = 0u32;
    let (max_subs, max_owners, max_weaks) = if h.many > 0 { (h.many, h.many, h.many) } else { (5, 4, 3) };
    macro_rules! bail {
        ($tag:expr, $($arg:tt)*) => {{
            let what = format!($($arg)*);
            crate::common::note_divergence(tag(a, $tag), &what);
            return Err(Div { prop: tag(a, $tag), what });
        }};
    }

    // bystander objects on the same thread (noise.rs) in a quarter of the longer histories
    let mut noise: Option<crate::noise::Noise> =
        if h.ops.len() > 12 && crate::common::hash_of(h) % 4 == 0 { Some(crate::noise::Noise::new()) } else { None };
    let noise_seed = crate::common::hash_of(h);
    let mut noise_step = 0u64;
    let task_wide = h.same_waker && noise_seed % 2 == 1;
    for (step, op) in h.ops.iter().enumerate() {
        if let Some(nz) = noise.as_mut() {
            noise_step += 1;
            if let Err((tags, what)) = nz.tick(crate::common::mix(noise_seed, noise_step)) {
                crate::common::note_divergence(tags, &what);
                return Err(Div { prop: tags, what });
            }
        }
        let res: Res = 'op: {
            // ---- writers
            let writer = match op {
                OOp::Set(hh, v) => Some((*hh, 0u8, *v, false, false)),
                OOp::SetIfNotEq(hh, v) => Some((*hh, 1, *v, false, false)),
                OOp::SetIfHashNotEq(hh, v) => Some((*hh, 2, *v, false, false)),
                OOp::Take(hh) => Some((*hh, 3, (0, 0), false, false)),
                OOp::Update(hh, v) => Some((*hh, 4, *v, true, true)),
                OOp::UpdateIf(hh, v, mu, r) => Some((*hh, 5, *v, *mu, *r)),
                _ => None,
            };
            if let Some((hh, kind, v, mu, ret)) = writer {
                if m.closed || (!m.unique && w.owners.is_empty()) {
                    break 'op Res::Skipped;
                }
                let old = m.value;
                let tag_before = if m.unique { F::u_tag(w.uniq.as_ref().unwrap()) } else { F::s_tag(&w.owners[hh % w.owners.len()]) };
                // model
                let (expect, notifies) = match kind {
                    0 => (Res::Prev(old), true),
                    1 => {
                        if old != v {
                            (Res::OptPrev(Some(old)), true)
                        } else {
                            (Res::OptPrev(None), false)
                        }
                    }
                    2 => {
                        if hash_val(old) != hash_val(v) {
                            (Res::OptPrev(Some(old)), true)
                        } else {
                            (Res::OptPrev(None), false)
                        }
                    }
                    3 => (Res::Prev(old), true),
                    4 => (Res::Unit, true),
                    _ => (Res::Unit, ret),
                };
                let stores = match kind {
                    0 | 3 => true,
                    1 | 2 => notifies,
                    _ => mu,
                };
                let newv = if kind == 3 { (0, 0) } else { v };
                let mut upd = |x: &mut Hk| *x = Hk::new(v);
                let mut updif = |x: &mut Hk| {
                    if mu {
                        *x = Hk::new(v);
                    }
                    ret
                };
                let got = if m.unique {
                    let u = w.uniq.as_mut().unwrap();
                    match kind {
                        0 => Res::Prev(F::u_set(u, Hk::new(v)).val()),
                        1 => Res::OptPrev(F::u_set_if_not_eq(u, Hk::new(v)).map(|x| x.val())),
                        2 => Res::OptPrev(F::u_set_if_hash_not_eq(u, Hk::new(v)).map(|x| x.val())),
                        3 => Res::Prev(F::u_take(u).val()),
                        4 => {
                            F::u_update(u, &mut upd);
                            Res::Unit
                        }
                        _ => {
                            F::u_update_if(u, &mut updif);
                            Res::Unit
                        }
                    }
                } else {
                    let s = &w.owners[hh % w.owners.len()];
                    match kind {
                        0 => Res::Prev(F::s_set(s, Hk::new(v)).val()),
                        1 => Res::OptPrev(F::s_set_if_not_eq(s, Hk::new(v)).map(|x| x.val())),
                        2 => Res::OptPrev(F::s_set_if_hash_not_eq(s, Hk::new(v)).map(|x| x.val())),
                        3 => Res::Prev(F::s_take(s).val()),
                        4 => {
                            F::s_update(s, &mut upd);
                            Res::Unit
                        }
                        _ => {
                            F::s_update_if(s, &mut updif);
                            Res::Unit
                        }
                    }
                };
                if got != expect {
                    bail!("C01", "step {step} {op:?}: returned {got:?}, expected {expect:?} (value before {old:?})");
                }
                // a conditional setter that does not store changes nothing: the stored instance stays
                if (kind == 1 || kind == 2) && !notifies {
                    let tag_after = if m.unique { F::u_tag(w.uniq.as_ref().unwrap()) } else { F::s_tag(&w.owners[hh % w.owners.len()]) };
                    if tag_after != tag_before {
                        bail!("C01", "step {step} {op:?}: returned None (nothing to store) but the stored value was replaced by the equal value handed in");
                    }
                }
                if stores {
                    m.value = newv;
                }
                if notifies {
                    m.version += 1;
                    f.notifying += 1;
                } else if stores {
                    f.silent_mutation += 1;
                }
                if kind == 1 || kind == 2 {
                    if notifies {
                        f.cond_stored += 1;
                    } else {
                        f.cond_not_stored += 1;
                    }
                }
                break 'op got;
            }
            match op {
                OOp::Guard(hh, gops) => {
                    if m.unique || w.owners.is_empty() {
                        break 'op Res::Skipped;
                    }
                    let n = w.owners.len();
                    let s = &w.owners[hh % n];
                    let other = &w.owners[(hh + 1) % n];
                    let mut results = vec![];
                    F::s_guard(s, other, gops, &mut results);
                    // model
                    let mut expect = vec![];
                    for g in gops {
                        let old = m.value;
                        match g {
                            GOp::Set(v) => {
                                expect.push(Res::Prev(old));
                                m.value = *v;
                                m.version += 1;
                            }
                            GOp::SetIfNotEq(v) => {
                                if old != *v {
                                    expect.push(Res::OptPrev(Some(old)));
                                    m.value = *v;
                                    m.version += 1;
                                } else {
                                    expect.push(Res::OptPrev(None));
                                }
                            }
                            GOp::SetIfHashNotEq(v) => {
                                if hash_val(old) != hash_val(*v) {
                                    expect.push(Res::OptPrev(Some(old)));
                                    m.value = *v;
                                    m.version += 1;
                                } else {
                                    expect.push(Res::OptPrev(None));
                                }
                            }
                            GOp::Take => {
                                expect.push(Res::Prev(old));
                                m.value = (0, 0);
                                m.version += 1;
                            }
                            GOp::Update(v) => {
                                expect.push(Res::Unit);
                                m.value = *v;
                                m.version += 1;
                            }
                            GOp::UpdateIf(v, mu, r) => {
                                expect.push(Res::Unit);
                                if *mu {
                                    m.value = *v;
                                }
                                if *r {
                                    m.version += 1;
                                }
                            }
                            GOp::TryOthers => expect.push(Res::Flag(false)),
                        }
                        expect.push(Res::Value(m.value));
                        f.guard_ops += 1;
                    }
                    if results != expect {
                        bail!("C01", "step {step} {op:?}: through the write guard {results:?}, expected {expect:?}");
                    }
                    Res::Unit
                }
                OOp::ReadGuard(hh) => {
                    if m.unique || w.owners.is_empty() {
                        break 'op Res::Skipped;
                    }
                    let n = w.owners.len();
                    let (v, tw_failed, tr_ok) = F::s_read_guard(&w.owners[hh % n], &w.owners[(hh + 1) % n]);
                    // (whether a second reader gets in while a read guard is alive is not part of any
                    // property: only recorded)
                    let _ = tr_ok;
                    if v != m.value {
                        bail!("C01", "step {step} read guard: value {v:?}, the value most recently stored is {:?}", m.value);
                    }
                    if !tw_failed {
                        // "while a read guard is alive no write completes" is C04's clause
                        bail!("C04", "step {step} read guard: try_write succeeded while a read guard is alive");
                    }
                    Res::Value(v)
                }
                OOp::TryGuards(hh, v) => {
                    if m.unique || w.owners.is_empty() || m.closed {
                        break 'op Res::Skipped;
                    }
                    let s = &w.owners[hh % w.owners.len()];
                    match F::s_try_guards(s, Hk::new(*v)) {
                        // (no property says that try_read/try_write must succeed on a free lock)
                        None => bail!("X-trylock", "step {step}: try_read/try_write failed although no guard is held"),
                        Some((r, prev)) => {
                            if r != m.value || prev != m.value {
                                bail!("C01", "step {step} {op:?}: try_read saw {r:?}, set through try_write returned {prev:?}, stored value {:?}", m.value);
                            }
                            m.value = *v;
                            m.version += 1;
                            f.notifying += 1;
                            Res::Prev(prev)
                        }
                    }
                }
                OOp::Get(hh) | OOp::Read(hh) => {
                    let v = if m.unique {
                        match w.uniq.as_ref() {
                            Some(u) => F::u_get(u),
                            None => break 'op Res::Skipped,
                        }
                    } else if w.owners.is_empty() {
                        break 'op Res::Skipped;
                    } else {
                        let s = &w.owners[hh % w.owners.len()];
                        if matches!(op, OOp::Get(_)) {
                            F::s_get(s)
                        } else {
                            F::s_read(s)
                        }
                    };
                    if v != m.value {
                        bail!("C01", "step {step} {op:?}: {v:?}, the value most recently stored is {:?}", m.value);
                    }
                    Res::Value(v)
                }
                OOp::Clone(hh) => {
                    if m.unique || w.owners.is_empty() || w.owners.len() >= max_owners {
                        break 'op Res::Skipped;
                    }
                    let c = F::s_clone(&w.owners[hh % w.owners.len()]);
                    w.owners.push(c);
                    Res::Unit
                }
                OOp::HandlesUnderGuard(hh, write, k) => {
                    if m.unique || w.owners.is_empty() {
                        break 'op Res::Skipped;
                    }
                    let n = w.owners.len();
                    let holder = F::s_clone(&w.owners[hh % n]);
                    let mut fault: Option<String> = None;
                    {
                        let owners = &mut w.owners;
                        let mut body = || match k % 3 {
                            0 => {
                                let c = F::s_clone(&owners[0]);
                                drop(c);
                            }
                            1 => {
                                if owners.len() >= 2 {
                                    let o = owners.remove((hh + 1) % owners.len());
                                    drop(o);
                                }
                            }
                            _ => {
                                let wk = F::s_downgrade(&owners[0]);
                                let up = F::w_upgrade(&wk);
                                if up.is_none() {
                                    fault = Some("upgrade failed although owners exist".into());
                                }
                                drop(up);
                                drop(wk);
                            }
                        };
                        F::s_under_guard(&holder, *write, &mut body);
                    }
                    drop(holder);
                    if let Some(what) = fault {
                        bail!("C03", "step {step} {op:?}: {what}");
                    }
                    Res::Unit
                }
                OOp::CloneFromOther(hh) => {
                    if m.unique || w.owners.is_empty() {
                        break 'op Res::Skipped;
                    }
                    let i = hh % w.owners.len();
                    let mut moved = w.owners.remove(i);
                    let other = F::new_s(Hk::new((1, 1)));
                    F::s_clone_from(&mut moved, &other);
                    let c = F::s_counts(&other);
                    let c2 = F::s_counts(&moved);
                    if c != (2, 0, 2, 0) || c2 != (2, 0, 2, 0) {
                        bail!("C19", "step {step} clone_from: the other observable reports {c:?} / {c2:?} through its two handles, live = (2, 0, 2, 0)");
                    }
                    if F::s_get(&moved) != (1, 1) {
                        bail!("C01", "step {step} clone_from: the re-pointed handle does not read the other observable's value");
                    }
                    drop(moved);
                    drop(other);
                    if w.owners.is_empty() {
                        // the overwritten handle was this observable's last owner
                        m.closed = true;
                        f.closes += 1;
                    }
                    Res::Unit
                }
                OOp::DropOwner(hh) | OOp::DropOwnerUnwinding(hh) => {
                    let unwinding = matches!(op, OOp::DropOwnerUnwinding(_));
                    // drop `x` while this thread unwinds (resume_unwind does not run the panic hook)
                    fn drop_unwinding<X>(x: X) {
                        let r = std::panic::catch_unwind(std::panic::AssertUnwindSafe(move || {
                            let _keep = x;
                            std::panic::resume_unwind(Box::new(()));
                        }));
                        assert!(r.is_err());
                    }
                    if m.unique {
                        match w.uniq.take() {
                            Some(u) => {
                                if unwinding {
                                    drop_unwinding(u);
                                } else {
                                    drop(u);
                                }
                                m.closed = true;
                                f.closes += 1;
                            }
                            None => break 'op Res::Skipped,
                        }
                    } else if w.owners.is_empty() {
                        break 'op Res::Skipped;
                    } else {
                        let i = hh % w.owners.len();
                        let o = w.owners.remove(i);
                        if unwinding {
                            drop_unwinding(o);
                        } else {
                            drop(o);
                        }
                        if w.owners.is_empty() {
                            m.closed = true;
                            f.closes += 1;
                        }
                    }
                    Res::Unit
                }
                OOp::Downgrade(hh) => {
                    if m.unique || w.owners.is_empty() || w.weaks.len() >= max_weaks {
                        break 'op Res::Skipped;
                    }
                    let wk = F::s_downgrade(&w.owners[hh % w.owners.len()]);
                    w.weaks.push(wk);
                    Res::Unit
                }
                OOp::Upgrade(wi) => {
                    if w.weaks.is_empty() || w.owners.len() >= max_owners {
                        break 'op Res::Skipped;
                    }
                    let up = F::w_upgrade(&w.weaks[wi % w.weaks.len()]);
                    let ok = up.is_some();
                    let expect = !w.owners.is_empty();
                    if ok && !expect {
                        // a handle that should not exist
                        let what = format!("step {step} upgrade: is_some = true, but no owner exists");
                        crate::common::note_divergence(tag(a, "C03"), &what);
                        bogus_upgrades += 1;
                        if soft.is_none() {
                            *soft = Some(Div { prop: tag(a, "C03"), what });
                        }
                        // adopt the first few as live handles: the counts they report are judged from here on
                        if bogus_upgrades > 3 {
                            std::mem::forget(up);
                            return Err(soft.take().unwrap());
                        }
                    } else if ok != expect {
                        std::mem::forget(up);
                        bail!("C03", "step {step} upgrade: is_some = {ok}, but {} owner(s) exist", w.owners.len());
                    }
                    if let Some(s) = up {
                        w.owners.push(s);
                        f.upgrades_ok += 1;
                    } else {
                        f.upgrades_none += 1;
                    }
                    Res::Upgraded(ok)
                }
                OOp::CloneWeak(wi) => {
                    if w.weaks.is_empty() || w.weaks.len() >= max_weaks {
                        break 'op Res::Skipped;
                    }
                    let c = F::w_clone(&w.weaks[wi % w.weaks.len()]);
                    w.weaks.push(c);
                    Res::Unit
                }
                OOp::DropWeak(wi) => {
                    if w.weaks.is_empty() {
                        break 'op Res::Skipped;
                    }
                    let i = wi % w.weaks.len();
                    w.weaks.remove(i);
                    Res::Unit
                }
                OOp::IntoShared => {
                    if !m.unique {
                        break 'op Res::Skipped;
                    }
                    match w.uniq.take() {
                        Some(u) => {
                            w.owners.push(F::u_into_shared(u));
                            m.unique = false;
                            f.into_shared += 1;
                            Res::Unit
                        }
                        None => break 'op Res::Skipped,
                    }
                }
                OOp::Subscribe(hh) | OOp::SubscribeReset(hh) => {
                    let live = w.subs.iter().filter(|s| s.is_some()).count();
                    if live >= max_subs {
                        break 'op Res::Skipped;
                    }
                    let reset = matches!(op, OOp::SubscribeReset(_));
                    let sub = if m.unique {
                        match w.uniq.as_ref() {
                            Some(u) => {
                                if reset {
                                    F::u_subscribe_reset(u)
                                } else {
                                    F::u_subscribe(u)
                                }
                            }
                            None => break 'op Res::Skipped,
                        }
                    } else if w.owners.is_empty() {
                        break 'op Res::Skipped;
                    } else {
                        let s = &w.owners[hh % w.owners.len()];
                        if reset {
                            F::s_subscribe_reset(s)
                        } else {
                            F::s_subscribe(s)
                        }
                    };
                    w.subs.push(Some(sub));
                    m.subs.push(Some(SubM { observed: if reset { 0 } else { m.version }, pending: None, own: None, dirty: false }));
                    f.subs_created += 1;
                    Res::Unit
                }
                OOp::Poll(si) | OOp::PollNext(si) | OOp::PollNextRef(si) => {
                    let live: Vec<usize> = (0..w.subs.len()).filter(|i| w.subs[*i].is_some()).collect();
                    if live.is_empty() {
                        break 'op Res::Skipped;
                    }
                    let i = live[si % live.len()];
                    let sub = w.subs[i].as_mut().unwrap();
                    let (flag, waker) = if h.same_waker {
                        // one waker per subscriber - or, in half of these histories, the worker thread's
                        // long-lived waker for every subscriber (common::task_waker)
                        let own = m.subs[i].as_mut().unwrap().own.get_or_insert_with(if task_wide { task_waker } else { flag_waker });
                        (own.0.clone(), own.1.clone())
                    } else {
                        flag_waker()
                    };
                    let wakes_before = flag.wakes.load(std::sync::atomic::Ordering::SeqCst);
                    let mut cx = Context::from_waker(&waker);
                    let r = match op {
                        OOp::Poll(_) => F::sub_poll_stream(sub, &mut cx),
                        OOp::PollNext(_) => F::sub_poll_next(sub, &mut cx),
                        _ => F::sub_poll_next_ref(sub, &mut cx),
                    };
                    let sm = m.subs[i].as_mut().unwrap();
                    let expect: Poll<Option<Val>> = if m.closed {
                        Poll::Ready(None)
                    } else if sm.observed < m.version {
                        Poll::Ready(Some(m.value))
                    } else {
                        Poll::Pending
                    };
                    if r != expect {
                        // an end although an owner lives is a stream that is ready without an unobserved update
                        // (C01) and an end before the last owner went (C03); Pending although the end is
                        // available is a subscriber left suspended on a state nobody will wake (C02) and a
                        // missing end (C03)
                        let t = if !m.closed && matches!(r, Poll::Ready(None)) {
                            "C01|C03"
                        } else if m.closed && r.is_pending() {
                            "C02|C03"
                        } else if m.closed {
                            "C03"
                        } else {
                            "C01"
                        };
                        bail!(t, "step {step} {op:?} on subscriber {i}: {r:?}, expected {expect:?} (observed version {}, current {}, closed {})", sm.observed, m.version, m.closed);
                    }
                    // C02: ready again only after the waker of the last Pending poll was woken
                    if let Some((pf, _, at)) = &sm.pending {
                        // woken between the Pending poll and this poll (in same-waker mode pf is this poll's waker too)
                        let woken = if h.same_waker { wakes_before > *at } else { pf.wakes.load(std::sync::atomic::Ordering::SeqCst) > *at };
                        if r.is_ready() && !sm.dirty && !woken {
                            bail!("C02", "step {step}: subscriber {i} became ready although the waker of its last Pending poll was never woken");
                        }
                    }
                    sm.pending = None;
                    sm.dirty = false;
                    match r {
                        Poll::Ready(Some(_)) => {
                            sm.observed = m.version;
                            f.ready += 1;
                        }
                        Poll::Ready(None) => {
                            f.none += 1;
                        }
                        Poll::Pending => {
                            let at = flag.wakes.load(std::sync::atomic::Ordering::SeqCst);
                            sm.pending = Some((flag, m.version, at));
                            f.pending += 1;
                        }
                    }
                    Res::PollR(match r {
                        Poll::Ready(x) => Some(x),
                        Poll::Pending => None,
                    })
                }
                OOp::NextNow(si) | OOp::NextRefNow(si) | OOp::SGet(si) | OOp::SRead(si) => {
                    let live: Vec<usize> = (0..w.subs.len()).filter(|i| w.subs[*i].is_some()).collect();
                    if live.is_empty() {
                        break 'op Res::Skipped;
                    }
                    let i = live[si % live.len()];
                    let sub = w.subs[i].as_mut().unwrap();
                    let v = match op {
                        OOp::NextNow(_) => F::sub_next_now(sub),
                        OOp::NextRefNow(_) => F::sub_next_ref_now(sub),
                        OOp::SGet(_) => F::sub_get(sub),
                        _ => F::sub_read(sub),
                    };
                    if v != m.value {
                        bail!("C01", "step {step} {op:?} on subscriber {i}: {v:?}, the value most recently stored is {:?}", m.value);
                    }
                    if matches!(op, OOp::NextNow(_) | OOp::NextRefNow(_)) {
                        // marks as observed. Once closed the library reports version 0; the model keeps
                        // the subscriber ended in any case (closed wins in poll).
                        m.subs[i].as_mut().unwrap().observed = m.version;
                    }
                    Res::Value(v)
                }
                OOp::Reset(si) => {
                    let live: Vec<usize> = (0..w.subs.len()).filter(|i| w.subs[*i].is_some()).collect();
                    if live.is_empty() {
                        break 'op Res::Skipped;
                    }
                    let i = live[si % live.len()];
                    F::sub_reset(w.subs[i].as_mut().unwrap());
                    let sm = m.subs[i].as_mut().unwrap();
                    sm.observed = 0;
                    sm.dirty = true;
                    Res::Unit
                }
                OOp::SClone(si) | OOp::SCloneReset(si) => {
                    let live: Vec<usize> = (0..w.subs.len()).filter(|i| w.subs[*i].is_some()).collect();
                    if live.is_empty() || live.len() >= max_subs {
                        break 'op Res::Skipped;
                    }
                    let i = live[si % live.len()];
                    let reset = matches!(op, OOp::SCloneReset(_));
                    let c = if reset {
                        F::sub_clone_reset(w.subs[i].as_ref().unwrap())
                    } else {
                        F::sub_clone(w.subs[i].as_ref().unwrap())
                    };
                    let observed = if reset { 0 } else { m.subs[i].as_ref().unwrap().observed };
                    w.subs.push(Some(c));
                    m.subs.push(Some(SubM { observed, pending: None, own: None, dirty: false }));
                    f.subs_created += 1;
                    Res::Unit
                }
                OOp::SubCloneFromOther(si) => {
                    let live: Vec<usize> = (0..w.subs.len()).filter(|i| w.subs[*i].is_some()).collect();
                    if live.is_empty() {
                        break 'op Res::Skipped;
                    }
                    let i = live[si % live.len()];
                    let mut moved = w.subs[i].take().unwrap();
                    m.subs[i] = None;
                    let other = F::new_s(Hk::new((1, 1)));
                    let osub = F::s_subscribe(&other);
                    F::sub_clone_from(&mut moved, &osub);
                    let c = F::s_counts(&other);
                    if c != (1, 2, 3, 0) {
                        bail!("C19", "step {step} Subscriber::clone_from: the other observable (1 handle, its own subscriber and the re-pointed one) reports {c:?}, live = (1, 2, 3, 0)");
                    }
                    let v = F::sub_get(&moved);
                    if v != (1, 1) {
                        bail!("C01", "step {step} Subscriber::clone_from: the re-pointed subscriber reads {v:?}, the other observable holds (1, 1)");
                    }
                    drop(moved);
                    let c = F::s_counts(&other);
                    if c != (1, 1, 2, 0) {
                        bail!("C19", "step {step} Subscriber::clone_from: after the re-pointed subscriber was dropped the other observable reports {c:?}, live = (1, 1, 2, 0)");
                    }
                    drop(osub);
                    drop(other);
                    Res::Unit
                }
                OOp::SDrop(si) => {
                    let live: Vec<usize> = (0..w.subs.len()).filter(|i| w.subs[*i].is_some()).collect();
                    if live.is_empty() {
                        break 'op Res::Skipped;
                    }
                    let i = live[si % live.len()];
                    w.subs[i] = None;
                    m.subs[i] = None;
                    Res::Unit
                }
                _ => unreachable!(),
            }
        };
        f.trace.push(res);

        // ---- after every single operation: wake obligations of *all* pending subscribers (C02)
        let mut pending_now = 0;
        for (i, sm) in m.subs.iter().enumerate() {
            let Some(sm) = sm else { continue };
            if let Some((flag, at, wakes_at)) = &sm.pending {
                pending_now += 1;
                if m.version > *at || m.closed {
                    f.wake_obligations += 1;
                    if flag.wakes.load(std::sync::atomic::Ordering::SeqCst) <= *wakes_at {
                        bail!(
                            "C02",
                            "after step {step} {op:?}: subscriber {i} was Pending (version {at}), {} but the waker of that poll was never woken",
                            if m.closed { "the observable was closed".to_string() } else { format!("the version is now {}", m.version) }
                        );
                    }
                }
            }
        }
        f.max_pending_at_once = f.max_pending_at_once.max(pending_now);

        // ---- counts at every quiescent moment (C19)
        let live_subs = w.subs.iter().filter(|s| s.is_some()).count();
        if let Some(u) = w.uniq.as_ref() {
            f.count_checks += 1;
            let c = F::u_subscriber_count(u);
            if c != live_subs {
                bail!("C19", "after step {step} {op:?}: Observable::subscriber_count = {c}, live subscribers = {live_subs}");
            }
        }
        for (k, s) in w.owners.iter().enumerate() {
            f.count_checks += 1;
            let got = F::s_counts(s);
            let want = (w.owners.len(), live_subs, w.owners.len() + live_subs, w.weaks.len());
            if got != want {
                bail!(
                    "C19",
                    "after step {step} {op:?}: handle {k} reports (observable_count, subscriber_count, strong_count, weak_count) = {got:?}, live = {want:?}"
                );
            }
        }
        f.states.push(hash_of(&(m.value, m.version.min(6), m.closed, w.owners.len(), w.weaks.len(), live_subs, pending_now)));
    }
    // end: drop every owner, then every subscriber must end (C03) and keep the last value
    let had_owner = w.uniq.is_some() || !w.owners.is_empty();
    w.uniq = None;
    w.owners.clear();
    if had_owner {
        m.closed = true;
        f.closes += 1;
    }
    for (i, sm) in m.subs.iter().enumerate() {
        let Some(sm) = sm else { continue };
        if let Some((flag, _, wakes_at)) = &sm.pending {
            f.wake_obligations += 1;
            if flag.wakes.load(std::sync::atomic::Ordering::SeqCst) <= *wakes_at {
                bail!("C02", "at the end: subscriber {i} was Pending when the last owner was dropped and its waker was never woken");
            }
        }
    }
    for i in 0..w.subs.len() {
        let Some(sub) = w.subs[i].as_mut() else { continue };
        for round in 0..2 {
            let (_fl, waker) = flag_waker();
            let mut cx = Context::from_waker(&waker);
            let r = F::sub_poll_stream(sub, &mut cx);
            if r != Poll::Ready(None) {
                bail!("C03", "at the end: subscriber {i} answered {r:?} (poll {round}) although every owner is gone");
            }
            f.polls_after_end += 1;
            if round == 0 {
                F::sub_reset(sub);
            }
        }
        let v = F::sub_get(sub);
        if v != m.value {
            bail!("C03", "at the end: subscriber {i} reads {v:?} after the end, the last stored value is {:?}", m.value);
        }
    }
    for wk in &w.weaks {
        if F::w_upgrade(wk).is_some() {
            bail!("C03", "at the end: a weak reference upgraded although every owner is gone");
        }
        f.upgrades_none += 1;
    }
    drop(w);
    Ok(f)
}
