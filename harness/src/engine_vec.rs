//! ObservableVector engine: executes a history of source operations, subscriptions and polls on the
//! real `ObservableVector<Tracked>` and evaluates, at every step, the monitors of C05 C06 C07 C08
//! C14 (plain streams) C17 and C20.

use std::{
    pin::Pin,
    sync::Arc,
    task::{Context, Poll},
};

use eyeball_im::{ObservableVector, VectorDiff, VectorSubscriberBatchedStream, VectorSubscriberStream};
use futures_core::Stream;
use serde_json::json;

use crate::{common::*, vops::*};

#[derive(Clone, Debug, Hash)]
pub enum HOp {
    V(VOp),
    Sub { batched: bool },
    /// subscribe now, turn the VectorSubscriber into a stream only at its first poll; `values`: through
    /// into_values_and_(batched_)stream instead of into_(batched_)stream
    SubLazy { batched: bool, values: bool },
    /// poll subscriber `sub` up to `max` times (0 = until Pending/None)
    Poll { sub: usize, max: usize },
    DropSub(usize),
    /// drop every subscriber stream including the reference one (the vector has no receivers until the
    /// next subscription)
    DropAll,
    DropVec,
    /// the vector is consumed by `into_inner()` instead of being dropped
    DropVecIntoInner,
}

impl HOp {
    pub fn show(&self) -> String {
        match self {
            HOp::V(op) => op.show(),
            HOp::Sub { batched } => format!("subscribe({})", if *batched { "batched" } else { "plain" }),
            HOp::SubLazy { batched, values } => format!(
                "subscribe({}, converted at the first poll via {})",
                if *batched { "batched" } else { "plain" },
                if *values { "into_values_and_*stream" } else { "into_*stream" }
            ),
            HOp::Poll { sub, max } => {
                if *max == 0 {
                    format!("drain(s{sub})")
                } else {
                    format!("poll(s{sub},{max})")
                }
            }
            HOp::DropSub(s) => format!("drop(s{s})"),
            HOp::DropAll => "drop(all subscribers)".into(),
            HOp::DropVec => "drop(vector)".into(),
            HOp::DropVecIntoInner => "vector.into_inner()".into(),
        }
    }
}

#[derive(Clone, Debug, Hash)]
pub struct VecHistory {
    pub capacity: usize,
    pub init: Vec<u32>,
    pub ops: Vec<HOp>,
}

impl VecHistory {
    pub fn show(&self) -> Vec<String> {
        let mut v = vec![format!("with_capacity({}) init{:?}", self.capacity, self.init)];
        v.extend(self.ops.iter().map(|o| o.show()));
        v
    }
}

#[derive(Debug)]
pub struct Div {
    pub prop: &'static str,
    pub what: String,
}

fn div<T>(prop: &'static str, what: String) -> Result<T, Div> {
    note_divergence(prop, &what);
    Err(Div { prop, what })
}

#[derive(Default, Debug, Clone)]
pub struct Facts {
    pub resets: u64,
    pub near_lag_polls: u64,
    pub msgs: u64,
    pub txn_leaked: u64,
    pub multi_msgs: u64,
    pub txn_commit: u64,
    pub txn_abandon: u64,
    pub txn_empty_commit: u64,
    pub noop_calls: u64,
    pub panics: u64,
    pub traversals: u64,
    pub traversal_mutations: u64,
    pub ready: u64,
    pub pending: u64,
    pub ended: u64,
    pub ended_lagged: u64,
    pub ended_midbatch: u64,
    pub ended_behind: u64,
    pub woken_by_drop: u64,
    pub wakes_checked: u64,
    pub subs: u64,
    pub batched_items: u64,
    pub receiverless_ops: u64,
    pub lazy_subs: u64,
}

enum SubStream {
    U(Pin<Box<VectorSubscriberStream<Tracked>>>),
    B(Pin<Box<VectorSubscriberBatchedStream<Tracked>>>),
    /// not converted yet (batched?, through the values-returning constructor?)
    Raw(Option<eyeball_im::VectorSubscriber<Tracked>>, bool, bool),
}

struct Sub {
    stream: Option<SubStream>,
    batched: bool,
    replica: Vec<Item>,
    pos_msg: usize,
    pos_diff: usize,
    /// flag of the last poll if it was Pending, and msgs.len() at that time
    pending: Option<(Arc<FlagWaker>, usize)>,
    ended: bool,
    lagged: bool,
    /// message positions the values handed out at a late conversion may correspond to (resolved by the first
    /// item or the first Pending)
    cands: Vec<usize>,
    /// lagging, not repaired by a Reset: position unknown until the next Pending (then replica == contents)
    free_run: bool,
}

struct Mon {
    capacity: usize,
    /// false when the vector was built by a constructor that promises no particular capacity
    capacity_promised: bool,
    /// None while the vector has no receivers at all (after DropAll / DropSubs)
    ref_stream: Option<Pin<Box<VectorSubscriberBatchedStream<Tracked>>>>,
    ref_ended: bool,
    msgs: Vec<Vec<D>>,
    /// number of diffs published so far (logical budget of a drain)
    diffs_published: usize,
    /// indices of the messages published by a transaction commit
    commit_msgs: std::collections::HashSet<usize>,
    subs: Vec<Sub>,
    /// Some(final contents) once the vector is dropped
    final_contents: Option<Vec<Item>>,
    facts: Facts,
    fault: Option<Div>,
    /// the reference subscriber (never behind) received a Reset: a C06 matter that does not stop the history,
    /// the Reset is treated like any other published diff so that the other monitors keep judging
    deferred_c06: std::rc::Rc<std::cell::RefCell<Option<String>>>,
}

/// states (values only) at message boundaries from a subscriber's position on: the replica as it is (a boundary
/// only if no message is half delivered), then after each further published message
fn boundary_states(replica: &[Item], msgs: &[Vec<D>], pos_msg: usize, pos_diff: usize) -> Vec<Vec<u32>> {
    let mut out = vec![];
    let mut r = replica.to_vec();
    if pos_diff == 0 {
        out.push(vals(&r));
    }
    for (k, m) in msgs.iter().enumerate().skip(pos_msg) {
        let from = if k == pos_msg { pos_diff } else { 0 };
        for d in m.iter().skip(from) {
            if d.checked_apply(&mut r).is_err() {
                return out;
            }
        }
        out.push(vals(&r));
    }
    out
}

fn to_ds(v: &[VectorDiff<Tracked>]) -> Vec<D> {
    v.iter().map(D::of).collect()
}

impl Mon {
    /// poll the reference subscriber once; one item = one message
    fn poll_ref(&mut self) {
        if self.ref_ended {
            return;
        }
        let Some(rs) = self.ref_stream.as_mut() else { return };
        let (_f, w) = flag_waker();
        let mut cx = Context::from_waker(&w);
        let polled = std::panic::catch_unwind(std::panic::AssertUnwindSafe(|| rs.as_mut().poll_next(&mut cx)));
        let polled = match polled {
            Ok(p) => p,
            Err(_) => {
                if self.fault.is_none() {
                    self.fault = Some(Div { prop: "C05|C06|C07|C08", what: format!("poll_next of the reference subscriber panicked: {}", last_panic()) });
                }
                self.ref_stream = None;
                self.ref_ended = true;
                return;
            }
        };
        match polled {
            Poll::Ready(Some(batch)) => {
                let ds = to_ds(&batch);
                if ds.is_empty() && self.fault.is_none() {
                    self.fault = Some(Div { prop: "C07", what: "a subscriber received an empty batch".into() });
                }
                if ds.iter().any(|d| matches!(d, D::Reset(_))) && self.deferred_c06.borrow().is_none() {
                    *self.deferred_c06.borrow_mut() = Some(format!(
                        "reference subscriber (polled after every call, never behind) received a Reset: {}",
                        show_diffs(&ds).chars().take(300).collect::<String>()
                    ));
                }
                self.facts.msgs += 1;
                if ds.len() > 1 {
                    self.facts.multi_msgs += 1;
                }
                self.diffs_published += ds.len();
                self.msgs.push(ds);
            }
            Poll::Ready(None) => self.ref_ended = true,
            Poll::Pending => {}
        }
    }

    /// the vector loses all its receivers
    fn drop_all(&mut self) {
        self.ref_stream = None;
        for s in &mut self.subs {
            s.stream = None;
            s.pending = None;
        }
    }

    fn has_ref(&self) -> bool {
        self.ref_stream.is_some()
    }

    fn ensure_ref(&mut self, ob: &ObservableVector<Tracked>) {
        if self.ref_stream.is_none() && !self.ref_ended {
            self.ref_stream = Some(Box::pin(ob.subscribe().into_batched_stream()));
        }
    }

    fn take_fault(&mut self) -> Result<(), Div> {
        match self.fault.take() {
            Some(d) => Err(d),
            None => Ok(()),
        }
    }

    /// C14/C08: every subscriber whose last poll was Pending must have been woken if something
    /// became available since (a message, or the end of the stream).
    fn check_wake_obligations(&mut self, dropped_now: bool) -> Result<(), Div> {
        let n = self.msgs.len();
        for (i, s) in self.subs.iter().enumerate() {
            if s.stream.is_none() {
                continue;
            }
            if let Some((flag, at)) = &s.pending {
                let due = n > *at || dropped_now || self.final_contents.is_some();
                if due {
                    self.facts.wakes_checked += 1;
                    if !flag.woken() {
                        let prop = if dropped_now { "C08" } else { "C14" };
                        return div(
                            prop,
                            format!(
                                "subscriber s{i} was Pending, then {} but the waker of that poll was never woken",
                                if dropped_now { "the vector was dropped".to_string() } else { format!("{} message(s) were published", n - at) }
                            ),
                        );
                    }
                    if dropped_now {
                        self.facts.woken_by_drop += 1;
                    }
                }
            }
        }
        Ok(())
    }

    fn poll_sub(&mut self, i: usize, max: usize, contents_now: &[Item]) -> Result<(), Div> {
        // `new()`, `default()` and `From<Vector>` promise no particular capacity (16 today): for vectors built that
        // way only a Reset with at most one pending update is certainly premature
        let cap = if self.capacity_promised { self.capacity } else { 1 };
        let alive = self.final_contents.is_none();
        // logical budget of one drain: a subscriber cannot be handed more diffs than were published (plus Resets)
        let unbounded = 10_000usize.max(2 * self.diffs_published + 16);
        let budget = if max == 0 { unbounded } else { max };
        for _ in 0..budget {
            let n_msgs = self.msgs.len();
            let s = &mut self.subs[i];
            if s.ended {
                // after the end, further polls must keep answering None
            }
            if let Some(SubStream::Raw(raw, batched, values)) = s.stream.as_mut() {
                // late conversion
                let sub = raw.take().unwrap();
                let (batched, values) = (*batched, *values);
                let snap_now = items_of(sub.values().iter());
                if vals(&snap_now) != vals(&s.replica) {
                    return div("C05", format!("values() of an unconverted subscriber changed from {:?} to {:?}", vals(&s.replica), vals(&snap_now)));
                }
                let (handed, stream) = match (batched, values) {
                    (false, false) => (None, SubStream::U(Box::pin(sub.into_stream()))),
                    (true, false) => (None, SubStream::B(Box::pin(sub.into_batched_stream()))),
                    (false, true) => {
                        let (v, st) = sub.into_values_and_stream();
                        (Some(items_of(v.iter())), SubStream::U(Box::pin(st)))
                    }
                    (true, true) => {
                        let (v, st) = sub.into_values_and_batched_stream();
                        (Some(items_of(v.iter())), SubStream::B(Box::pin(st)))
                    }
                };
                s.stream = Some(stream);
                if let Some(v) = handed {
                    // the values handed out must be a state the vector had since subscribe(): normally the
                    // snapshot of that moment; an implementation may hand out a fresher one and fewer diffs
                    let mut st = s.replica.clone();
                    let mut cands = vec![];
                    if vals(&st) == vals(&v) {
                        cands.push(s.pos_msg);
                    }
                    for k in s.pos_msg..n_msgs {
                        let mut ok = true;
                        for d in &self.msgs[k] {
                            if d.checked_apply(&mut st).is_err() {
                                ok = false;
                                break;
                            }
                        }
                        if !ok {
                            break;
                        }
                        if vals(&st) == vals(&v) {
                            cands.push(k + 1);
                        }
                    }
                    if cands.is_empty() {
                        return div(
                            "C05|C06",
                            format!("into_values_and_*stream of s{i} handed out {:?}, which is no state the vector had since this subscriber was created (then: {:?})", vals(&v), vals(&s.replica)),
                        );
                    }
                    s.replica = v;
                    s.pos_msg = cands[0];
                    s.cands = cands;
                }
            }
            let Some(stream) = s.stream.as_mut() else { return Ok(()) };
            let (flag, w) = flag_waker();
            let mut cx = Context::from_waker(&w);
            let undelivered = n_msgs - s.pos_msg;
            if undelivered + 1 >= cap && undelivered > 0 {
                self.facts.near_lag_polls += 1;
            }
            // a panic inside a stream's poll belongs to the delivery properties, not to whatever else the
            // history happens to be checking
            let polled = std::panic::catch_unwind(std::panic::AssertUnwindSafe(|| match stream {
                SubStream::U(st) => st.as_mut().poll_next(&mut cx).map(|o| o.map(|d| vec![D::of(&d)])),
                SubStream::B(st) => st.as_mut().poll_next(&mut cx).map(|o| o.map(|b| to_ds(&b))),
                SubStream::Raw(..) => unreachable!("converted above"),
            }));
            let res: Poll<Option<Vec<D>>> = match polled {
                Ok(r) => r,
                Err(_) => {
                    s.stream = None;
                    return div("C05|C06|C07|C08", format!("poll_next of subscriber s{i} panicked: {}", last_panic()));
                }
            };
            // a late conversion with several possible positions: the first answer tells which one it was
            if s.cands.len() > 1 {
                let cands = std::mem::take(&mut s.cands);
                let pick = match &res {
                    Poll::Ready(Some(ds)) => cands.iter().copied().find(|c| {
                        if s.batched {
                            let e: Vec<&D> = self.msgs[*c..].iter().flatten().collect();
                            e.len() == ds.len() && e.iter().zip(ds.iter()).all(|(a, b)| b.same_values(a))
                        } else {
                            self.msgs.get(*c).and_then(|m| m.first()).map_or(false, |e| ds[0].same_values(e))
                        }
                    }),
                    _ => cands.iter().copied().find(|c| *c == n_msgs),
                };
                if let Some(c) = pick {
                    s.pos_msg = c;
                }
            } else {
                s.cands.clear();
            }
            let undelivered = n_msgs - s.pos_msg;
            // C14: never ready again without the waker of the last Pending poll having been woken
            if let Some((pflag, _)) = &s.pending {
                if res.is_ready() && !pflag.woken() {
                    return div(
                        "C14",
                        format!("subscriber s{i} became ready although the waker of its last Pending poll was never woken"),
                    );
                }
            }
            s.pending = None;
            match res {
                Poll::Pending => {
                    self.facts.pending += 1;
                    if s.ended {
                        // polling a finished stream again is outside the properties
                        return Ok(());
                    }
                    if !alive {
                        return div("C08", format!("subscriber s{i} is Pending although the vector was dropped"));
                    }
                    if s.free_run {
                        // judged by the replica comparison below only
                        s.free_run = false;
                        s.lagged = true;
                        s.pos_msg = n_msgs;
                        s.pos_diff = 0;
                    }
                    if s.pos_msg < n_msgs {
                        // (for a subscriber behind beyond the capacity this is C06's Pending clause, not C05's)
                        // within the capacity it is both: diffs the subscriber must receive (C05) and a stream that
                        // reports Pending while its replica is not the contents (C06)
                        let tag = if n_msgs - s.pos_msg > cap { "C06" } else { "C05|C06" };
                        return div(
                            tag,
                            format!("subscriber s{i} is Pending although {} message(s) are undelivered", n_msgs - s.pos_msg),
                        );
                    }
                    // C06: at Pending the replica equals the contents
                    if vals(&s.replica) != vals(contents_now) {
                        return div(
                            "C06",
                            format!("subscriber s{i} Pending with replica {:?} != contents {:?}", vals(&s.replica), vals(contents_now)),
                        );
                    }
                    s.pending = Some((flag, n_msgs));
                    return Ok(());
                }
                Poll::Ready(None) => {
                    if alive {
                        return div("C08", format!("subscriber s{i} ended while the vector is alive"));
                    }
                    if !s.ended {
                        self.facts.ended += 1;
                        if s.lagged {
                            self.facts.ended_lagged += 1;
                        }
                    }
                    s.ended = true;
                    let fin = self.final_contents.as_ref().unwrap();
                    if vals(&s.replica) != vals(fin) {
                        // published diffs that never reach a subscriber which did not fall behind: C05 as well
                        let tag = if n_msgs - s.pos_msg <= cap { "C05|C08" } else { "C08" };
                        return div(
                            tag,
                            format!(
                                "subscriber s{i} ended with replica {:?} != final contents {:?} ({} message(s) undelivered)",
                                vals(&s.replica),
                                vals(fin),
                                n_msgs - s.pos_msg
                            ),
                        );
                    }
                    if max == 0 {
                        // one more poll: must stay None
                        let (_f2, w2) = flag_waker();
                        let mut cx2 = Context::from_waker(&w2);
                        let again = match s.stream.as_mut().unwrap() {
                            SubStream::U(st) => st.as_mut().poll_next(&mut cx2).map(|o| o.is_some()),
                            SubStream::B(st) => st.as_mut().poll_next(&mut cx2).map(|o| o.is_some()),
                            SubStream::Raw(..) => unreachable!("converted at the first poll"),
                        };
                        if again == Poll::Ready(true) {
                            return div("C08", format!("subscriber s{i} yielded another item after its end"));
                        }
                    }
                    return Ok(());
                }
                Poll::Ready(Some(ds)) => {
                    self.facts.ready += 1;
                    if s.ended {
                        return div("C08", format!("subscriber s{i} yielded an item after it had ended"));
                    }
                    if ds.is_empty() {
                        return div("C07", format!("subscriber s{i} received an empty batch"));
                    }
                    let mut is_reset = ds.len() == 1 && matches!(ds[0], D::Reset(_));
                    if is_reset && undelivered <= cap {
                        // (only after a deferred C06 fault) the Reset may be a published diff like any other
                        let published = if s.batched {
                            let e: Vec<&D> = self.msgs[s.pos_msg..].iter().flatten().collect();
                            e.len() == 1 && ds[0].same_values(e[0])
                        } else {
                            self.msgs.get(s.pos_msg).and_then(|m| m.get(s.pos_diff)).map_or(false, |e| ds[0].same_values(e))
                        };
                        if published {
                            is_reset = false;
                        }
                    }
                    if is_reset {
                        let D::Reset(values) = &ds[0] else { unreachable!() };
                        if undelivered <= cap {
                            // also C05: what a subscriber that never fell behind receives is the published diffs
                            return div(
                                "C05|C06",
                                format!("subscriber s{i} received a Reset with only {undelivered} message(s) pending (capacity {cap})"),
                            );
                        }
                        if vals(values) != vals(contents_now) {
                            // the Reset is built from the newest message: if that is a commit, the
                            // transaction did not reach this subscriber as one unit either
                            // C07 as well only if the Reset shows a state *inside* a transaction, i.e. one that is no
                            // message-boundary state at all
                            let bounds = boundary_states(&s.replica, &self.msgs, s.pos_msg, s.pos_diff);
                            let tag = if !self.commit_msgs.is_empty() && !bounds.contains(&vals(values)) { "C06|C07" } else { "C06" };
                            return div(
                                tag,
                                format!("Reset delivered to s{i} carries {:?} but the contents are {:?}", vals(values), vals(contents_now)),
                            );
                        }
                        self.facts.resets += 1;
                        s.lagged = true;
                        s.replica = values.clone();
                        s.pos_msg = n_msgs;
                        s.pos_diff = 0;
                    } else if s.batched {
                        self.facts.batched_items += 1;
                        // must be the concatenation of everything pending
                        let expect: Vec<D> = self.msgs[s.pos_msg..].iter().flatten().cloned().collect();
                        if ds.len() != expect.len() || ds.iter().zip(&expect).any(|(a, b)| !a.same_values(b)) {
                            // where does what was delivered lead?
                            let mut r = s.replica.clone();
                            let applicable = ds.iter().all(|d| d.checked_apply(&mut r).is_ok());
                            if undelivered > cap {
                                // a subscriber that is behind beyond the capacity: C06 does not prescribe which
                                // diffs repair the lag, only that they apply and that the item brings it up to date
                                if !applicable {
                                    return div("C06", format!("batched s{i} (lagging) received {} which is inapplicable to its replica", show_diffs(&ds)));
                                }
                                if vals(&r) != vals(contents_now) {
                                    return div("C06", format!("after a batched item the lagging s{i} has replica {:?} != contents {:?}", vals(&r), vals(contents_now)));
                                }
                                s.replica = r;
                                s.lagged = true;
                                s.pos_msg = n_msgs;
                                s.pos_diff = 0;
                                continue;
                            }
                            // C07 too only if a committed transaction is pending and what arrived is inapplicable or
                            // ends in a state that is no message boundary (a state in between)
                            let has_commit = (s.pos_msg..n_msgs).any(|k| self.commit_msgs.contains(&k));
                            let bounds = boundary_states(&s.replica, &self.msgs, s.pos_msg, s.pos_diff);
                            let tag = if has_commit && (!applicable || !bounds.contains(&vals(&r))) { "C05|C07" } else { "C05" };
                            return div(
                                tag,
                                format!("batched s{i} received {} but the pending messages are {}", show_diffs(&ds), show_diffs(&expect)),
                            );
                        }
                        for d in &ds {
                            if let Err(e) = d.checked_apply(&mut s.replica) {
                                return div("C06", format!("diff {} delivered to s{i} is inapplicable: {e}", d.show()));
                            }
                        }
                        s.pos_msg = n_msgs;
                        s.pos_diff = 0;
                        // C06: each batched item brings the subscriber fully up to date
                        if vals(&s.replica) != vals(contents_now) {
                            return div(
                                "C06",
                                format!("after a batched item s{i} has replica {:?} != contents {:?}", vals(&s.replica), vals(contents_now)),
                            );
                        }
                    } else {
                        let d = &ds[0];
                        let expect = self.msgs.get(s.pos_msg).and_then(|m| m.get(s.pos_diff));
                        match expect {
                            Some(e) if d.same_values(e) => {}
                            _ if s.free_run || undelivered > cap => {
                                // behind beyond the capacity and not repaired by a Reset: C06 does not prescribe which
                                // diffs arrive, only that each is applicable and that at Pending the replica equals
                                // the contents - from here to the next Pending only that is judged
                                s.free_run = true;
                            }
                            other => {
                                return div(
                                    "C05",
                                    format!(
                                        "s{i} received {} but the next undelivered diff is {}",
                                        d.show(),
                                        other.map(|e| e.show()).unwrap_or_else(|| "<none>".into())
                                    ),
                                )
                            }
                        }
                        if let Err(e) = d.checked_apply(&mut s.replica) {
                            return div("C06", format!("diff {} delivered to s{i} is inapplicable: {e}", d.show()));
                        }
                        if !s.free_run {
                            s.pos_diff += 1;
                            if s.pos_diff == self.msgs[s.pos_msg].len() {
                                s.pos_msg += 1;
                                s.pos_diff = 0;
                            }
                        }
                    }
                }
            }
        }
        if max == 0 {
            return div("C05", format!("subscriber s{i} answered Ready {unbounded} times in one drain"));
        }
        Ok(())
    }
}

/// Execute one history with all monitors armed. Returns the facts observed, or the first divergence.
pub fn run_vec_history(h: &VecHistory) -> Result<Facts, Div> {
    table_reset();
    let deferred_cell = std::rc::Rc::new(std::cell::RefCell::new(None));
    let r = run_inner(h, deferred_cell.clone());
    let deferred: Option<String> = deferred_cell.borrow_mut().take();
    // everything of the history is gone here
    let (live, faults, ids) = table_finish();
    let r = match (r, deferred) {
        (Ok(f), None) => f,
        (Ok(_), Some(what)) => return div("C06", what),
        (Err(d), None) => return Err(d),
        (Err(d), Some(what)) => {
            let prop: &'static str =
                if d.prop.split('|').any(|t| t == "C06") { d.prop } else { Box::leak(format!("{}|C06", d.prop).into_boxed_str()) };
            return Err(Div { prop, what: format!("{} (earlier: {what})", d.what) });
        }
    };
    if let Some(f) = faults.first() {
        return div("C20", format!("{f} ({} fault(s))", faults.len()));
    }
    if live != 0 && r.txn_leaked == 0 {
        return div("C20", format!("{live} value(s) still alive after everything was dropped (ids {ids:?})"));
    }
    Ok(r)
}

fn run_inner(h: &VecHistory, deferred: std::rc::Rc<std::cell::RefCell<Option<String>>>) -> Result<Facts, Div> {
    let mut ob: Option<ObservableVector<Tracked>> = Some(crate::vops::make_vector(h.capacity, &h.init));
    let ref_sub = ob.as_ref().unwrap().subscribe();
    let mut mon = Mon {
        capacity: h.capacity,
        capacity_promised: h.capacity != 16,
        ref_stream: Some(Box::pin(ref_sub.into_batched_stream())),
        ref_ended: false,
        msgs: vec![],
        diffs_published: 0,
        commit_msgs: Default::default(),
        subs: vec![],
        final_contents: None,
        facts: Facts::default(),
        fault: None,
        deferred_c06: deferred,
    };

    // bystander objects on the same thread (noise.rs) in a quarter of the longer histories
    let mut noise: Option<crate::noise::Noise> =
        if h.ops.len() > 12 && crate::common::hash_of(h) % 4 == 0 { Some(crate::noise::Noise::new()) } else { None };
    let noise_seed = crate::common::hash_of(h);
    let mut noise_step = 0u64;
    for op in &h.ops {
        if let Some(nz) = noise.as_mut() {
            noise_step += 1;
            if let Err((tags, what)) = nz.tick(crate::common::mix(noise_seed, noise_step)) {
                crate::common::note_divergence(tags, &what);
                return Err(Div { prop: tags, what });
            }
        }
        match op {
            HOp::V(vop) => {
                let Some(obr) = ob.as_mut() else { continue };
                step_vop(obr, vop, &mut mon)?;
            }
            HOp::DropAll => {
                if ob.is_some() {
                    mon.drop_all();
                }
            }
            HOp::Sub { batched } => {
                let Some(obr) = ob.as_ref() else { continue };
                mon.ensure_ref(obr);
                let sub = obr.subscribe();
                let snap = items_of(sub.values().iter());
                let now = contents(obr);
                if vals(&snap) != vals(&now) {
                    return div("C05", format!("snapshot {:?} != contents {:?} at subscribe", vals(&snap), vals(&now)));
                }
                let stream = if *batched {
                    SubStream::B(Box::pin(sub.into_batched_stream()))
                } else {
                    SubStream::U(Box::pin(sub.into_stream()))
                };
                mon.facts.subs += 1;
                mon.subs.push(Sub {
                    stream: Some(stream),
                    batched: *batched,
                    replica: snap,
                    pos_msg: mon.msgs.len(),
                    pos_diff: 0,
                    pending: None,
                    ended: false,
                    lagged: false,
                    cands: vec![],
                    free_run: false,
                });
            }
            HOp::SubLazy { batched, values } => {
                let Some(obr) = ob.as_ref() else { continue };
                mon.ensure_ref(obr);
                let sub = obr.subscribe();
                let snap = items_of(sub.values().iter());
                let now = contents(obr);
                if vals(&snap) != vals(&now) {
                    return div("C05", format!("snapshot {:?} != contents {:?} at subscribe", vals(&snap), vals(&now)));
                }
                mon.facts.subs += 1;
                mon.facts.lazy_subs += 1;
                mon.subs.push(Sub {
                    stream: Some(SubStream::Raw(Some(sub), *batched, *values)),
                    batched: *batched,
                    replica: snap,
                    pos_msg: mon.msgs.len(),
                    pos_diff: 0,
                    pending: None,
                    ended: false,
                    lagged: false,
                    cands: vec![],
                    free_run: false,
                });
            }
            HOp::Poll { sub, max } => {
                if mon.subs.is_empty() {
                    continue;
                }
                let i = sub % mon.subs.len();
                let now = match (&ob, &mon.final_contents) {
                    (Some(o), _) => contents(o),
                    (None, Some(f)) => f.clone(),
                    _ => vec![],
                };
                mon.poll_sub(i, *max, &now)?;
            }
            HOp::DropSub(s) => {
                if mon.subs.is_empty() {
                    continue;
                }
                let i = s % mon.subs.len();
                mon.subs[i].stream = None;
                mon.subs[i].pending = None;
            }
            HOp::DropVec => {
                drop_vec(&mut ob, &mut mon, false)?;
            }
            HOp::DropVecIntoInner => {
                drop_vec(&mut ob, &mut mon, true)?;
            }
        }
    }
    // end of history: drop the vector (if still alive) and drain everything to the end
    // (histories that did not end the vector themselves: dropped, or consumed by into_inner())
    drop_vec(&mut ob, &mut mon, h.ops.len() % 3 == 1)?;
    let fin = mon.final_contents.clone().unwrap();
    for i in 0..mon.subs.len() {
        if mon.subs[i].stream.is_some() {
            let behind = mon.msgs.len() - mon.subs[i].pos_msg;
            if behind > 0 && !mon.subs[i].ended {
                mon.facts.ended_behind += 1;
            }
            if mon.subs[i].pos_diff > 0 {
                mon.facts.ended_midbatch += 1;
            }
            mon.poll_sub(i, 0, &fin)?;
            if !mon.subs[i].ended {
                return div("C08", format!("subscriber s{i} did not end after the vector was dropped"));
            }
        }
    }
    Ok(mon.facts.clone())
}

fn drop_vec(ob: &mut Option<ObservableVector<Tracked>>, mon: &mut Mon, into_inner: bool) -> Result<(), Div> {
    if let Some(o) = ob.take() {
        mon.final_contents = Some(contents(&o));
        if into_inner {
            // the vector is gone just the same; what comes out are its contents
            let inner = o.into_inner();
            let got = items_of(inner.iter());
            if vals(&got) != vals(mon.final_contents.as_ref().unwrap()) {
                return div("X-into-inner", format!("into_inner() returned {:?}, the contents were {:?}", vals(&got), vals(mon.final_contents.as_ref().unwrap())));
            }
            drop(inner);
        } else {
            drop(o);
        }
        mon.check_wake_obligations(true)?;
        mon.poll_ref();
        if mon.has_ref() && !mon.ref_ended {
            return div("C08", "reference subscriber did not end after the vector was dropped".into());
        }
    }
    Ok(())
}

fn step_vop(ob: &mut ObservableVector<Tracked>, vop: &VOp, mon: &mut Mon) -> Result<(), Div> {
    // a wrong view through the transaction handle (C07/C17) does not end the history: the model adopts what
    // the handle shows and the transaction runs on, so that what reaches the subscribers is judged as well
    let mut soft: Option<Div> = None;
    let r = step_vop_inner(ob, vop, mon, &mut soft);
    match (r, soft) {
        (r, None) => r,
        (Ok(()), Some(s)) => Err(s),
        (Err(d), Some(s)) => {
            let mut tags: Vec<&str> = s.prop.split('|').collect();
            for t in d.prop.split('|') {
                if !tags.contains(&t) {
                    tags.push(t);
                }
            }
            let prop: &'static str = Box::leak(tags.join("|").into_boxed_str());
            Err(Div { prop, what: format!("{} (earlier: {})", d.what, s.what) })
        }
    }
}

fn step_vop_inner(ob: &mut ObservableVector<Tracked>, vop: &VOp, mon: &mut Mon, soft: &mut Option<Div>) -> Result<(), Div> {
    let before = contents(ob);
    let before_v = vals(&before);
    let n0 = mon.msgs.len();
    match vop {
        VOp::Txn(body, end) => {
            let mut work = before_v.clone();
            let mut certain = 0usize; // recorded changes that any implementation has to publish
            let mut any_clear = false;
            // an out-of-range call inside the body panicked (it must leave no trace in what is published: C17)
            let panicked: std::cell::RefCell<Vec<(char, usize)>> = std::cell::RefCell::new(vec![]);
            let mut tx = ob.transaction();
            let mut phase = |tx: &mut eyeball_im::ObservableVectorTransaction<'_, Tracked>,
                             ops: &[VOp],
                             work: &mut Vec<u32>,
                             certain: &mut usize,
                             any_clear: &mut bool,
                             mon: &mut Mon|
             -> Result<(), Div> {
                for op in ops {
                    if matches!(op, VOp::DropSubs) {
                        // every receiver goes away in the middle of the transaction
                        mon.drop_all();
                        continue;
                    }
                    let wb = work.clone();
                    let expect = model_op(work, op);
                    if matches!(op, VOp::Clear) {
                        *any_clear = true;
                        if !wb.is_empty() {
                            *certain = 1;
                        } else {
                            // clear on an empty working copy: earlier diffs may be dropped only if
                            // the result is still right; handled by the commit oracle
                        }
                    } else if expect != Ret::Panic {
                        *certain += direct_messages(&wb, op);
                    } else {
                        match op {
                            VOp::Insert(i, _) => panicked.borrow_mut().push(('I', *i)),
                            VOp::Set(i, _) | VOp::EntrySet(i, _) | VOp::EntrySetTwice(i, _, _) => panicked.borrow_mut().push(('S', *i)),
                            VOp::Remove(i) | VOp::EntryRemove(i) => panicked.borrow_mut().push(('R', *i)),
                            _ => {}
                        }
                    }
                    let (ret, ids) = exec_on_txn(tx, op, &mut || {});
                    check_ret(op, &expect, &ret, &ids, None, mon, "transaction ")?;
                    let seen = vals(&contents(tx));
                    if seen != *work {
                        // the pending changes are visible through the handle (C07), and a transaction
                        // mutator changes the contents like the same operation on a plain vector (C17)
                        let what = format!("through the transaction handle after {}: {:?}, model {:?}", op.show(), seen, work);
                        note_divergence("C07|C17", &what);
                        if soft.is_some() {
                            return Err(soft.take().unwrap());
                        }
                        *soft = Some(Div { prop: "C07|C17", what });
                        *work = seen;
                    }
                    mon.poll_ref();
                    mon.take_fault()?;
                    if mon.msgs.len() != n0 {
                        return div("C07", format!("a message was published inside a transaction (after {})", op.show()));
                    }
                }
                Ok(())
            };
            phase(&mut tx, body, &mut work, &mut certain, &mut any_clear, mon)?;
            let commit = match end {
                TxEnd::Commit => true,
                TxEnd::Drop | TxEnd::Forget => false,
                TxEnd::RollbackDrop => {
                    tx.rollback();
                    false
                }
                TxEnd::RollbackThen(more, c) => {
                    tx.rollback();
                    work = before_v.clone();
                    certain = 0;
                    panicked.borrow_mut().clear();
                    any_clear = false;
                    let seen = vals(&contents(&tx));
                    if seen != work {
                        return div("C07", format!("after rollback the transaction shows {seen:?}, expected {work:?}"));
                    }
                    phase(&mut tx, more, &mut work, &mut certain, &mut any_clear, mon)?;
                    *c
                }
            };
            if commit {
                tx.commit();
                mon.facts.txn_commit += 1;
                mon.poll_ref();
                mon.take_fault()?;
                let after = vals(&contents(ob));
                if after != work {
                    // if, in addition, what was published does not lead to these contents either, subscribers
                    // are told something else than what the vector holds: C05 as well
                    let mut tag = "C07|C17";
                    if mon.has_ref() {
                        if let Some(msg) = mon.msgs.get(n0) {
                            let mut r = before.clone();
                            let applicable = msg.iter().all(|d| d.checked_apply(&mut r).is_ok());
                            if !applicable || vals(&r) != after {
                                tag = "C05|C07|C17";
                            }
                        }
                    }
                    return div(tag, format!("after commit the contents are {after:?}, the transaction's working contents were {work:?}"));
                }
                if !mon.has_ref() {
                    // no receiver exists: nothing to publish to; contents were just compared
                    return Ok(());
                }
                for k in n0..mon.msgs.len() {
                    mon.commit_msgs.insert(k);
                }
                let new = &mon.msgs[n0..];
                if new.len() > 1 {
                    return div("C07", format!("commit published {} messages", new.len()));
                }
                if new.is_empty() {
                    mon.facts.txn_empty_commit += 1;
                    if after != before_v {
                        return div(
                            "C05|C07",
                            format!("commit changed the contents {before_v:?} -> {after:?} but published nothing"),
                        );
                    }
                    // (pre == post was just checked: publishing nothing is then indistinguishable for any
                    // subscriber, so the number of recorded operations is not held against it)
                    let _ = certain;
                } else {
                    // C17 ("... panics without ... notifying anyone") only if the batch really carries the diff of
                    // a call that panicked
                    let trace_of_panic = new[0].iter().any(|d| match d {
                        D::Insert(i, _) => panicked.borrow().contains(&('I', *i)),
                        D::Set(i, _) => panicked.borrow().contains(&('S', *i)),
                        D::Remove(i) => panicked.borrow().contains(&('R', *i)),
                        _ => false,
                    });
                    if certain == 0 && !any_clear {
                        let tag = if trace_of_panic { "C07|C17" } else { "C07" };
                        return div(tag, format!("commit without recorded changes published {}", show_diffs(&new[0])));
                    }
                    let mut r = before.clone();
                    for d in &new[0] {
                        if let Err(e) = d.checked_apply(&mut r) {
                            let tag = if trace_of_panic { "C05|C07|C17" } else { "C05|C07" };
                            return div(tag, format!("committed diff {} is inapplicable to the pre-transaction state: {e}", d.show()));
                        }
                    }
                    if vals(&r) != after {
                        let tag = if trace_of_panic { "C05|C07|C17" } else { "C05|C07" };
                        return div(
                            tag,
                            format!("pre-state {before_v:?} + committed {} = {:?}, but the contents are {after:?}", show_diffs(&new[0]), vals(&r)),
                        );
                    }
                }
            } else {
                if matches!(end, TxEnd::Forget) {
                    // leaked: its working copy and recorded diffs are never released (the drop accounting of this
                    // history tolerates values that stay alive, see run_vec_history)
                    std::mem::forget(tx);
                    mon.facts.txn_leaked += 1;
                } else {
                    drop(tx);
                }
                mon.facts.txn_abandon += 1;
                mon.poll_ref();
                mon.take_fault()?;
                let after = vals(&contents(ob));
                if after != before_v {
                    return div("C07", format!("abandoned transaction changed the contents {before_v:?} -> {after:?}"));
                }
                if mon.msgs.len() != n0 {
                    return div("C07", format!("abandoned transaction published {}", show_diffs(&mon.msgs[n0])));
                }
                // (a spurious wake-up delivers nothing and is not held against it)
            }
        }
        VOp::DropSubs => {
            mon.drop_all();
        }
        _ if !mon.has_ref() => {
            // no receiver at all: only return values, panics and contents can be judged
            let mut m = before_v.clone();
            let expect = model_op(&mut m, vop);
            let (ret, ids) = exec_on_vec(ob, vop, &mut || {});
            check_ret(vop, &expect, &ret, &ids, Some(&before), mon, "")?;
            let after = vals(&contents(ob));
            if after != m {
                return div("C17", format!("after {} the contents are {after:?}, a plain vector would hold {m:?}", vop.show()));
            }
            if expect == Ret::Panic {
                mon.facts.panics += 1;
            }
            mon.facts.receiverless_ops += 1;
        }
        _ => {
            let mut m = before_v.clone();
            let expect = model_op(&mut m, vop);
            let want_msgs = if expect == Ret::Panic { 0 } else { direct_messages(&before_v, vop) };
            let wakes_before: Vec<u64> = mon.subs.iter().map(|s| s.pending.as_ref().map_or(0, |(f, _)| f.wakes.load(std::sync::atomic::Ordering::SeqCst))).collect();
            let (ret, ids) = {
                let mut after_call = || mon.poll_ref();
                exec_on_vec(ob, vop, &mut after_call)
            };
            let wakes_after: Vec<u64> = mon.subs.iter().map(|s| s.pending.as_ref().map_or(0, |(f, _)| f.wakes.load(std::sync::atomic::Ordering::SeqCst))).collect();
            mon.poll_ref();
            mon.take_fault()?;
            check_ret(vop, &expect, &ret, &ids, Some(&before), mon, "")?;
            let after = vals(&contents(ob));
            if after != m {
                return div("C17", format!("after {} the contents are {after:?}, a plain vector would hold {m:?}", vop.show()));
            }
            let new = &mon.msgs[n0..];
            if expect == Ret::Panic {
                mon.facts.panics += 1;
                if !new.is_empty() {
                    return div("C17", format!("{} panicked but published {}", vop.show(), show_diffs(&new[0])));
                }
                for (i, s) in mon.subs.iter().enumerate() {
                    if s.pending.is_some() && wakes_after[i] > wakes_before[i] {
                        return div("C17", format!("subscriber s{i} was woken by the panicking call {}", vop.show()));
                    }
                }
            }
            // C05: the messages of this call take the replica from before to after
            // "exactly one diff" is stated for the direct mutators; through entry/entries/for_each only
            // "the diffs take the replica from the state before to the state after"
            let direct = !matches!(vop, VOp::ForEach(_) | VOp::Entries(_) | VOp::EntrySet(..) | VOp::EntrySetTwice(..) | VOp::EntryRemove(_));
            let mut r = before.clone();
            for msg in new {
                if direct && msg.len() != 1 {
                    return div("C05", format!("direct call {} published a message with {} diffs", vop.show(), msg.len()));
                }
                for d in msg {
                    if let Err(e) = d.checked_apply(&mut r) {
                        // (the reference subscriber is a real batched stream that never falls behind: an
                        // inapplicable diff, or Pending with a replica that is not the contents, is C06's too)
                        return div("C05|C06", format!("diff {} of {} is inapplicable: {e}", d.show(), vop.show()));
                    }
                }
            }
            if vals(&r) != after {
                return div(
                    "C05|C06",
                    format!("{}: before {before_v:?} + diffs {:?} = {:?}, contents {after:?}", vop.show(), new.iter().map(|m| show_diffs(m)).collect::<Vec<_>>(), vals(&r)),
                );
            }
            // (an empty append is a direct call and not among the documented no-ops the statement lists: it
            // contributes exactly one diff like every other direct call)
            if direct && new.len() != want_msgs {
                return div(
                    "C05",
                    format!("{} on {before_v:?} published {} message(s), expected {want_msgs}", vop.show(), new.len()),
                );
            }
            if want_msgs == 0 && expect != Ret::Panic {
                mon.facts.noop_calls += 1;
            }
        }
    }
    mon.check_wake_obligations(false)
}

fn check_ret(
    op: &VOp,
    expect: &Ret,
    ret: &Ret,
    ids: &[u32],
    before: Option<&Vec<Item>>,
    mon: &mut Mon,
    ctx: &str,
) -> Result<(), Div> {
    if expect != ret {
        return div("C17", format!("{ctx}{} returned {ret:?}, a plain vector gives {expect:?}", op.show()));
    }
    if let Ret::Visit(seen) = ret {
        mon.facts.traversals += 1;
        if let VOp::ForEach(d) | VOp::Entries(d) = op {
            if d.iter().take(seen.len()).any(|x| !matches!(x, Dec::Keep | Dec::Stop)) {
                mon.facts.traversal_mutations += 1;
            }
        }
        if let Some(before) = before {
            // identity level: the j-th visited element is the j-th original element
            let want: Vec<u32> = before.iter().take(ids.len()).map(|i| i.id).collect();
            if ids != want.as_slice() {
                return div("C17", format!("{ctx}{} visited ids {ids:?}, the original elements are {want:?}", op.show()));
            }
        }
    }
    Ok(())
}

// ---------------------------------------------------------------------------------------------
// generators

#[derive(Clone, Copy)]
pub struct GenCfg {
    pub caps: &'static [usize],
    pub max_ops: usize,
    pub min_ops: usize,
    pub maxlen: usize,
    pub vmax: u32,
    pub oob: bool,
    pub trav: bool,
    pub txn_pct: usize,
    pub max_subs: usize,
    pub poll_pct: usize,
    pub drop_vec_pct: usize,
    /// per mille: drop every receiver (top level, or in the middle of a transaction body)
    pub drop_all_pm: usize,
    /// upper bound for the length of the initial vector
    pub init_max: usize,
}

pub fn gen_vec_history(rng: &mut Rng, g: &GenCfg) -> VecHistory {
    let capacity = *rng.pick(g.caps);
    let n_init = rng.below(g.init_max + 1);
    let init: Vec<u32> = (0..n_init).map(|_| rng.below(g.vmax as usize) as u32).collect();
    let mut model = init.clone();
    let n_ops = rng.range(g.min_ops, g.max_ops);
    let mut ops = vec![];
    let mut n_subs = 0usize;
    // usually start with one or two subscribers
    let sub_op = |rng: &mut Rng| {
        if rng.chance(1, 3) {
            HOp::SubLazy { batched: rng.chance(1, 2), values: rng.chance(1, 2) }
        } else {
            HOp::Sub { batched: rng.chance(1, 2) }
        }
    };
    for _ in 0..rng.below(3) {
        if n_subs < g.max_subs {
            ops.push(sub_op(rng));
            n_subs += 1;
        }
    }
    // polling discipline of this history: eager (after every op), lazy, or bursty
    let style = rng.below(4);
    for _ in 0..n_ops {
        let r = rng.below(100);
        if r < 6 && n_subs < g.max_subs {
            ops.push(sub_op(rng));
            n_subs += 1;
            continue;
        }
        if r < 8 && n_subs > 0 {
            ops.push(HOp::DropSub(rng.below(n_subs)));
            continue;
        }
        let poll_pct = match style {
            0 => 60,
            1 => g.poll_pct,
            2 => 3,
            _ => g.poll_pct / 2,
        };
        if n_subs > 0 && rng.below(100) < poll_pct {
            let max = if rng.chance(2, 3) { 0 } else { rng.range(1, 3) };
            ops.push(HOp::Poll { sub: rng.below(n_subs), max });
            continue;
        }
        if rng.below(1000) < g.drop_vec_pct {
            ops.push(if rng.chance(1, 3) { HOp::DropVecIntoInner } else { HOp::DropVec });
            // a few polls after the drop
            for _ in 0..rng.below(4) {
                if n_subs > 0 {
                    ops.push(HOp::Poll { sub: rng.below(n_subs), max: rng.below(3) });
                }
            }
            break;
        }
        if rng.below(1000) < g.drop_all_pm {
            ops.push(HOp::DropAll);
            n_subs = 0;
            continue;
        }
        let mut vop = if rng.below(100) < g.txn_pct {
            gen_txn(rng, model.len(), g.vmax, g.oob, g.trav, g.maxlen)
        } else {
            gen_vop(rng, model.len(), g.vmax, g.oob, g.trav, g.maxlen)
        };
        if let VOp::Txn(body, _) = &mut vop {
            if rng.below(1000) < g.drop_all_pm * 4 {
                let at = rng.below(body.len() + 1);
                body.insert(at, VOp::DropSubs);
                n_subs = 0;
            }
        }
        apply_model(&mut model, &vop);
        ops.push(HOp::V(vop));
    }
    VecHistory { capacity, init, ops }
}

/// model of a whole operation including transactions (for generators)
pub fn apply_model(m: &mut Vec<u32>, vop: &VOp) {
    match vop {
        VOp::Txn(body, end) => {
            let mut w = m.clone();
            for op in body {
                model_op(&mut w, op);
            }
            match end {
                TxEnd::Commit => *m = w,
                TxEnd::Drop | TxEnd::Forget | TxEnd::RollbackDrop => {}
                TxEnd::RollbackThen(more, c) => {
                    let mut w = m.clone();
                    for op in more {
                        model_op(&mut w, op);
                    }
                    if *c {
                        *m = w;
                    }
                }
            }
        }
        _ => {
            model_op(m, vop);
        }
    }
}

pub fn record_facts(ev: &mut Ev, f: &Facts) {
    ev.add("messages_published", f.msgs);
    ev.add("multi_diff_messages", f.multi_msgs);
    ev.add("resets_delivered", f.resets);
    ev.add("polls_with_backlog_near_capacity", f.near_lag_polls);
    ev.add("txn_commits", f.txn_commit);
    ev.add("txn_commits_publishing_nothing", f.txn_empty_commit);
    ev.add("txn_abandoned", f.txn_abandon);
    ev.add("noop_calls", f.noop_calls);
    ev.add("out_of_range_panics", f.panics);
    ev.add("traversals", f.traversals);
    ev.add("traversals_with_mutation", f.traversal_mutations);
    ev.add("polls_ready", f.ready);
    ev.add("polls_pending", f.pending);
    ev.add("streams_ended", f.ended);
    ev.add("streams_ended_after_lag", f.ended_lagged);
    ev.add("streams_dropped_on_while_behind", f.ended_behind);
    ev.add("streams_dropped_on_mid_batch", f.ended_midbatch);
    ev.add("pending_subscribers_woken_by_drop", f.woken_by_drop);
    ev.add("wake_obligations_checked", f.wakes_checked);
    ev.add("subscribers", f.subs);
    ev.add("subscribers_converted_to_a_stream_only_at_their_first_poll", f.lazy_subs);
    ev.add("batched_items", f.batched_items);
    ev.add("operations_without_any_receiver", f.receiverless_ops);
}

/// Shared runner: executes history `h` for property `prop`; classifies the outcome.
/// `nontrivial(facts)` decides whether the history counts for distinct_nontrivial.
pub fn judge_vec(
    prop: &str,
    h: &VecHistory,
    case: serde_json::Value,
    out: &mut Outcome,
    nontrivial: &dyn Fn(&Facts) -> bool,
) {
    out.ev.evaluations += 1;
    let r = std::panic::catch_unwind(std::panic::AssertUnwindSafe(|| run_vec_history(h)));
    let r = match r {
        Ok(r) => r,
        Err(_) => Err(Div { prop: "PANIC", what: format!("unexpected panic: {}", last_panic()) }),
    };
    match r {
        Ok(f) => {
            record_facts(&mut out.ev, &f);
            if nontrivial(&f) {
                out.ev.nontrivial(hash_of(h));
                if out.ev.samples.len() < 3 {
                    out.ev.sample(json!({"history": h.show()}));
                }
            }
        }
        Err(d) => {
            if d.prop.split('|').any(|x| x == prop) || d.prop == "PANIC" {
                out.violations.push(Violation {
                    property: prop.to_string(),
                    case,
                    history: h.show(),
                    what: d.what,
                });
            } else {
                out.ev.foreign += 1;
                out.ev.count(&format!("foreign_divergence_{}", d.prop));
            }
        }
    }
}
