//! Adapter / chain engine: builds chains of Head/Tail/Skip/Filter/FilterMap/Sort* adapters over a
//! real ObservableVector<Tracked>, with a transparent tap after the source stream and after every
//! stage. All taps append to one event log; the oracle replays the log, keeps one replica per tap
//! and judges every stage against the replica of the stage below (C09-C15).

use std::{
    cell::RefCell,
    cmp::Ordering,
    collections::VecDeque,
    panic::{catch_unwind, AssertUnwindSafe},
    pin::Pin,
    rc::Rc,
    sync::Arc,
    task::{Context, Poll, Waker},
};

use eyeball_im::{ObservableVector, VectorDiff};
use eyeball_im_util::vector::{VectorObserver, VectorObserverExt, VectorSubscriberExt};
use futures_core::Stream;
use imbl::Vector;

use crate::{common::*, engine_vec::apply_model, engine_vec::Div, vops::*};

type T = Tracked;
type BoxS<I> = Pin<Box<dyn Stream<Item = I>>>;
type BoxL = Pin<Box<dyn Stream<Item = usize>>>;

// ---------------------------------------------------------------------------------------------
// specs

#[derive(Clone, Copy, Debug, PartialEq, Eq, Hash)]
pub enum PK {
    /// head(n) / tail(n) / skip(n)
    Static,
    /// dynamic_*_with_initial_*(n, stream)
    DynInit,
    /// dynamic_*(stream); the harness supplies empty initial values
    Dyn,
    /// dynamic_*(stream) used as the VectorObserver of the next stage (into_parts), at once
    DynParts,
    /// dynamic_*(stream), first limit `n` announced, polled to Pending, then into_parts
    DynPartsPolled,
    /// head(n) etc., but only the returned stream is kept and used as VectorObserver (into_parts)
    StaticParts,
    /// dynamic_*_with_initial_*(n, stream), only the stream kept and used as VectorObserver
    DynInitParts,
}

impl PK {
    pub fn dynamic(self) -> bool {
        !matches!(self, PK::Static | PK::StaticParts)
    }
    pub fn fixed(self) -> bool {
        !self.dynamic()
    }
}

#[derive(Clone, Copy, Debug, PartialEq, Eq, Hash)]
pub enum Kind {
    Head,
    Tail,
    Skip,
}

#[derive(Clone, Copy, Debug, PartialEq, Eq, Hash)]
pub enum Stage {
    Lim { kind: Kind, pk: PK, n: usize, queue: bool },
    Filter(u8),
    FilterMap(u8),
    Sort,
    SortBy,
    SortByKey,
}

impl Stage {
    pub fn show(&self) -> String {
        match self {
            Stage::Lim { kind, pk, n, queue } => {
                let k = match kind {
                    Kind::Head => "head",
                    Kind::Tail => "tail",
                    Kind::Skip => "skip",
                };
                let src = if *queue { "queue" } else { "observable" };
                match pk {
                    PK::Static => format!("{k}({n})"),
                    PK::StaticParts => format!("{k}({n}).1.into_parts"),
                    PK::DynInit => format!("dynamic_{k}_with_initial({n},{src})"),
                    PK::DynInitParts => format!("dynamic_{k}_with_initial({n},{src}).1.into_parts"),
                    PK::Dyn => format!("dynamic_{k}({src})"),
                    PK::DynParts => format!("dynamic_{k}({src}).into_parts"),
                    PK::DynPartsPolled => format!("dynamic_{k}({src})[limit {n},polled].into_parts"),
                }
            }
            Stage::Filter(m) => format!("filter(mask {m:04b})"),
            Stage::FilterMap(m) => format!("filter_map(mask {m:04b},+100)"),
            Stage::Sort => "sort".into(),
            Stage::SortBy => "sort_by(reverse)".into(),
            Stage::SortByKey => "sort_by_key(v/2)".into(),
        }
    }
    pub fn is_sort(&self) -> bool {
        matches!(self, Stage::Sort | Stage::SortBy | Stage::SortByKey)
    }
    pub fn is_tail(&self) -> bool {
        matches!(self, Stage::Lim { kind: Kind::Tail, .. })
    }
    pub fn dynamic(&self) -> bool {
        matches!(self, Stage::Lim { pk, .. } if pk.dynamic())
    }
    /// property the stage kind belongs to
    pub fn prop(&self) -> &'static str {
        match self {
            Stage::Lim { .. } => "C09",
            Stage::Filter(_) | Stage::FilterMap(_) => "C10",
            _ => "C11",
        }
    }
    fn cmp(&self, a: u32, b: u32) -> Ordering {
        match self {
            Stage::SortBy => b.cmp(&a),
            Stage::SortByKey => (a / 2).cmp(&(b / 2)),
            _ => a.cmp(&b),
        }
    }
}

pub fn mask_pass(mask: u8, v: u32) -> bool {
    (mask >> (v % 4)) & 1 == 1
}

#[derive(Clone, Debug, Hash)]
pub enum AOp {
    Src(VOp),
    /// announce a new limit/count to stage `stage` (1-based)
    Param(usize, usize),
    /// poll the top stream up to `max` times (0 = until Pending/None)
    Poll(usize),
    /// end the limit stream of stage `stage` (drop the limit observable / close the queue)
    CloseParam(usize),
    DropSrc,
}

impl AOp {
    pub fn show(&self) -> String {
        match self {
            AOp::Src(op) => op.show(),
            AOp::Param(s, v) => format!("limit[stage {s}]={v}"),
            AOp::Poll(0) => "drain".into(),
            AOp::Poll(n) => format!("poll({n})"),
            AOp::CloseParam(s) => format!("close-limit[stage {s}]"),
            AOp::DropSrc => "drop(vector)".into(),
        }
    }
}

#[derive(Clone, Debug, Hash)]
pub struct AdpHistory {
    pub capacity: usize,
    pub init: Vec<u32>,
    pub chain: Vec<Stage>,
    pub batched: bool,
    /// drain the top stream after every operation (C14 "checked after every single operation")
    pub eager: bool,
    /// poll with one and the same waker for the whole history (instead of a fresh one per poll): a
    /// stream that skips re-registration for a waker it has seen before is only visible this way
    pub same_waker: bool,
    pub ops: Vec<AOp>,
}

impl AdpHistory {
    pub fn show(&self) -> Vec<String> {
        let chain: Vec<String> = self.chain.iter().map(|s| s.show()).collect();
        let mut v = vec![format!(
            "with_capacity({}) init{:?} subscribe{}.{} {}",
            self.capacity,
            self.init,
            if self.batched { ".batched()" } else { "" },
            chain.join("."),
            if self.eager { "[drain after every op]" } else { "[lazy polls]" }
        )];
        if self.same_waker {
            v[0].push_str(" [one waker for all polls]");
        }
        v.extend(self.ops.iter().map(|o| o.show()));
        v
    }
}

// ---------------------------------------------------------------------------------------------
// event log and taps

#[derive(Debug)]
enum EvK {
    Item(Vec<D>),
    Pending,
    End,
    Limit(usize),
    LimitEnd,
}

#[derive(Debug)]
struct Event {
    /// tap index (0 = source stream, k = output of stage k); for Limit events the stage index
    tap: usize,
    k: EvK,
}

type Log = Rc<RefCell<Vec<Event>>>;

pub trait Flavor: 'static {
    fn to_ds(&self) -> Vec<D>;
}
impl Flavor for VectorDiff<T> {
    fn to_ds(&self) -> Vec<D> {
        vec![D::of(self)]
    }
}
impl Flavor for Vec<VectorDiff<T>> {
    fn to_ds(&self) -> Vec<D> {
        self.iter().map(D::of).collect()
    }
}

struct Tap<I> {
    inner: BoxS<I>,
    idx: usize,
    log: Log,
}

impl<I: Flavor> Stream for Tap<I> {
    type Item = I;
    fn poll_next(mut self: Pin<&mut Self>, cx: &mut Context<'_>) -> Poll<Option<I>> {
        let r = self.inner.as_mut().poll_next(cx);
        let k = match &r {
            Poll::Ready(Some(i)) => EvK::Item(i.to_ds()),
            Poll::Ready(None) => EvK::End,
            Poll::Pending => EvK::Pending,
        };
        self.log.borrow_mut().push(Event { tap: self.idx, k });
        r
    }
}

fn tap<I: Flavor>(inner: BoxS<I>, idx: usize, log: &Log) -> BoxS<I> {
    Box::pin(Tap { inner, idx, log: log.clone() })
}

struct LimitTap {
    inner: BoxL,
    stage: usize,
    log: Log,
    ended: bool,
}

impl Stream for LimitTap {
    type Item = usize;
    fn poll_next(mut self: Pin<&mut Self>, cx: &mut Context<'_>) -> Poll<Option<usize>> {
        let r = self.inner.as_mut().poll_next(cx);
        match &r {
            Poll::Ready(Some(v)) => self.log.borrow_mut().push(Event { tap: self.stage, k: EvK::Limit(*v) }),
            Poll::Ready(None) => {
                if !self.ended {
                    self.ended = true;
                    self.log.borrow_mut().push(Event { tap: self.stage, k: EvK::LimitEnd });
                }
            }
            Poll::Pending => {}
        }
        r
    }
}

#[derive(Default)]
struct QueueState {
    q: VecDeque<usize>,
    closed: bool,
    waker: Option<Waker>,
}

struct QueueStream(Rc<RefCell<QueueState>>);

impl Stream for QueueStream {
    type Item = usize;
    fn poll_next(self: Pin<&mut Self>, cx: &mut Context<'_>) -> Poll<Option<usize>> {
        let mut s = self.0.borrow_mut();
        if let Some(v) = s.q.pop_front() {
            Poll::Ready(Some(v))
        } else if s.closed {
            Poll::Ready(None)
        } else {
            s.waker = Some(cx.waker().clone());
            Poll::Pending
        }
    }
}

enum LimitCtl {
    Obs(Option<eyeball::Observable<usize>>),
    Queue(Rc<RefCell<QueueState>>),
}

impl LimitCtl {
    fn new(queue: bool) -> (LimitCtl, BoxL) {
        if queue {
            let st = Rc::new(RefCell::new(QueueState::default()));
            (LimitCtl::Queue(st.clone()), Box::pin(QueueStream(st)))
        } else {
            let ob = eyeball::Observable::new(usize::MAX);
            let sub = eyeball::Observable::subscribe(&ob);
            (LimitCtl::Obs(Some(ob)), Box::pin(sub))
        }
    }
    fn set(&mut self, v: usize) -> bool {
        match self {
            LimitCtl::Obs(Some(ob)) => {
                eyeball::Observable::set(ob, v);
                true
            }
            LimitCtl::Obs(None) => false,
            LimitCtl::Queue(st) => {
                let w = {
                    let mut s = st.borrow_mut();
                    if s.closed {
                        return false;
                    }
                    s.q.push_back(v);
                    s.waker.take()
                };
                if let Some(w) = w {
                    w.wake();
                }
                true
            }
        }
    }
    fn close(&mut self) {
        match self {
            LimitCtl::Obs(ob) => {
                ob.take();
            }
            LimitCtl::Queue(st) => {
                let w = {
                    let mut s = st.borrow_mut();
                    s.closed = true;
                    s.waker.take()
                };
                if let Some(w) = w {
                    w.wake();
                }
            }
        }
    }
    fn is_obs(&self) -> bool {
        matches!(self, LimitCtl::Obs(_))
    }
}

// ---------------------------------------------------------------------------------------------
// chain construction (one instantiation per stream flavour)

struct Built<I> {
    top: BoxS<I>,
    /// initial values per tap (0 = source snapshot)
    inits: Vec<Vec<Item>>,
    ctls: Vec<Option<LimitCtl>>,
    /// limit consumed by construction (Static / DynInit: n; DynPartsPolled: n; else None)
    limit0: Vec<Option<usize>>,
}

fn poll_to_pending<S: Stream + Unpin>(s: &mut S) {
    for _ in 0..10_000 {
        let (_f, w) = flag_waker();
        let mut cx = Context::from_waker(&w);
        match Pin::new(&mut *s).poll_next(&mut cx) {
            Poll::Ready(Some(_)) => {}
            _ => return,
        }
    }
}

macro_rules! build_chain_impl {
    ($name:ident, $I:ty) => {
        fn $name(specs: &[Stage], values: Vector<T>, stream: BoxS<$I>, log: &Log) -> Built<$I> {
            let mut inits = vec![items_of(values.iter())];
            let mut ctls: Vec<Option<LimitCtl>> = vec![None];
            let mut limit0: Vec<Option<usize>> = vec![None];
            let mut cur: (Vector<T>, BoxS<$I>) = (values, tap(stream, 0, log));
            for (i, spec) in specs.iter().enumerate() {
                let k = i + 1;
                let (v, s): (Vector<T>, BoxS<$I>) = match *spec {
                    Stage::Filter(mask) => {
                        let (v, s) = cur.filter(move |t: &T| mask_pass(mask, t.v));
                        ctls.push(None);
                        limit0.push(None);
                        (v, Box::pin(s))
                    }
                    Stage::FilterMap(mask) => {
                        let (v, s) = cur.filter_map(move |t: T| {
                            if mask_pass(mask, t.v) {
                                Some(Tracked::with_tag(t.v + 100, t.tag()))
                            } else {
                                None
                            }
                        });
                        ctls.push(None);
                        limit0.push(None);
                        (v, Box::pin(s))
                    }
                    Stage::Sort => {
                        let (v, s) = cur.sort();
                        ctls.push(None);
                        limit0.push(None);
                        (v, Box::pin(s))
                    }
                    Stage::SortBy => {
                        let (v, s) = cur.sort_by(|a: &T, b: &T| b.v.cmp(&a.v));
                        ctls.push(None);
                        limit0.push(None);
                        (v, Box::pin(s))
                    }
                    Stage::SortByKey => {
                        let (v, s) = cur.sort_by_key(|a: &T| a.v / 2);
                        ctls.push(None);
                        limit0.push(None);
                        (v, Box::pin(s))
                    }
                    Stage::Lim { kind, pk, n, queue } => {
                        if pk.fixed() {
                            ctls.push(None);
                            limit0.push(Some(n));
                            let parts = pk == PK::StaticParts;
                            match kind {
                                Kind::Head => {
                                    let (v, s) = cur.head(n);
                                    if parts {
                                        let (v, s) = VectorObserver::into_parts(s);
                                        (v, Box::pin(s))
                                    } else {
                                        (v, Box::pin(s))
                                    }
                                }
                                Kind::Tail => {
                                    let (v, s) = cur.tail(n);
                                    if parts {
                                        let (v, s) = VectorObserver::into_parts(s);
                                        (v, Box::pin(s))
                                    } else {
                                        (v, Box::pin(s))
                                    }
                                }
                                Kind::Skip => {
                                    let (v, s) = cur.skip(n);
                                    if parts {
                                        let (v, s) = VectorObserver::into_parts(s);
                                        (v, Box::pin(s))
                                    } else {
                                        (v, Box::pin(s))
                                    }
                                }
                            }
                        } else {
                            let (mut ctl, raw) = LimitCtl::new(queue);
                            let lim: BoxL = Box::pin(LimitTap { inner: raw, stage: k, log: log.clone(), ended: false });
                            let out: (Vector<T>, BoxS<$I>) = match (kind, pk) {
                                (Kind::Head, PK::DynInit) => {
                                    let (v, s) = cur.dynamic_head_with_initial_value(n, lim);
                                    (v, Box::pin(s))
                                }
                                (Kind::Tail, PK::DynInit) => {
                                    let (v, s) = cur.dynamic_tail_with_initial_value(n, lim);
                                    (v, Box::pin(s))
                                }
                                (Kind::Skip, PK::DynInit) => {
                                    let (v, s) = cur.dynamic_skip_with_initial_count(n, lim);
                                    (v, Box::pin(s))
                                }
                                (Kind::Head, PK::DynInitParts) => {
                                    let (_, s) = cur.dynamic_head_with_initial_value(n, lim);
                                    let (v, s) = VectorObserver::into_parts(s);
                                    (v, Box::pin(s))
                                }
                                (Kind::Tail, PK::DynInitParts) => {
                                    let (_, s) = cur.dynamic_tail_with_initial_value(n, lim);
                                    let (v, s) = VectorObserver::into_parts(s);
                                    (v, Box::pin(s))
                                }
                                (Kind::Skip, PK::DynInitParts) => {
                                    let (_, s) = cur.dynamic_skip_with_initial_count(n, lim);
                                    let (v, s) = VectorObserver::into_parts(s);
                                    (v, Box::pin(s))
                                }
                                (Kind::Head, PK::Dyn) => (Vector::new(), Box::pin(cur.dynamic_head(lim))),
                                (Kind::Tail, PK::Dyn) => (Vector::new(), Box::pin(cur.dynamic_tail(lim))),
                                (Kind::Skip, PK::Dyn) => (Vector::new(), Box::pin(cur.dynamic_skip(lim))),
                                (Kind::Head, _) => {
                                    let mut a = cur.dynamic_head(lim);
                                    if pk == PK::DynPartsPolled {
                                        ctl.set(n);
                                        poll_to_pending(&mut a);
                                    }
                                    let (v, s) = VectorObserver::into_parts(a);
                                    (v, Box::pin(s))
                                }
                                (Kind::Tail, _) => {
                                    let mut a = cur.dynamic_tail(lim);
                                    if pk == PK::DynPartsPolled {
                                        ctl.set(n);
                                        poll_to_pending(&mut a);
                                    }
                                    let (v, s) = VectorObserver::into_parts(a);
                                    (v, Box::pin(s))
                                }
                                (Kind::Skip, _) => {
                                    let mut a = cur.dynamic_skip(lim);
                                    if pk == PK::DynPartsPolled {
                                        ctl.set(n);
                                        poll_to_pending(&mut a);
                                    }
                                    let (v, s) = VectorObserver::into_parts(a);
                                    (v, Box::pin(s))
                                }
                            };
                            ctls.push(Some(ctl));
                            limit0.push(match pk {
                                PK::DynInit | PK::DynInitParts | PK::DynPartsPolled => Some(n),
                                _ => None,
                            });
                            out
                        }
                    }
                };
                inits.push(items_of(v.iter()));
                cur = (v, tap(s, k, log));
            }
            Built { top: cur.1, inits, ctls, limit0 }
        }
    };
}

build_chain_impl!(build_chain_u, VectorDiff<T>);
build_chain_impl!(build_chain_b, Vec<VectorDiff<T>>);

enum Top {
    U(BoxS<VectorDiff<T>>),
    B(BoxS<Vec<VectorDiff<T>>>),
}

// ---------------------------------------------------------------------------------------------
// oracle

pub fn view(spec: &Stage, param: Option<usize>, input: &[Item]) -> Vec<Item> {
    match spec {
        Stage::Lim { kind, .. } => match (kind, param) {
            (Kind::Head, p) => input.iter().take(p.unwrap_or(0)).cloned().collect(),
            (Kind::Tail, p) => {
                let p = p.unwrap_or(0);
                input[input.len().saturating_sub(p)..].to_vec()
            }
            (Kind::Skip, None) => vec![],
            (Kind::Skip, Some(c)) => input.iter().skip(c).cloned().collect(),
        },
        Stage::Filter(m) => input.iter().filter(|i| mask_pass(*m, i.v)).cloned().collect(),
        Stage::FilterMap(m) => {
            input.iter().filter(|i| mask_pass(*m, i.v)).map(|i| Item { v: i.v + 100, id: i.id }).collect()
        }
        // for sort stages only used as "some correct answer" (stable sort); judged by `conforms`
        _ => {
            let mut v = input.to_vec();
            v.sort_by(|a, b| spec.cmp(a.v, b.v));
            v
        }
    }
}

/// does `replica` conform to the stage's view of `input`? (values only)
pub fn conforms(spec: &Stage, param: Option<usize>, input: &[Item], replica: &[Item]) -> bool {
    if spec.is_sort() {
        if replica.len() != input.len() {
            return false;
        }
        let mut a = vals(input);
        let mut b = vals(replica);
        a.sort_unstable();
        b.sort_unstable();
        a == b && replica.windows(2).all(|w| spec.cmp(w[0].v, w[1].v) != Ordering::Greater)
    } else {
        vals(&view(spec, param, input)) == vals(replica)
    }
}

#[derive(Default, Debug, Clone)]
pub struct AFacts {
    pub diffs_in: u64,
    pub diffs_out: u64,
    pub resets_in: u64,
    /// Resets delivered by the source stream although at most `capacity` messages were waiting
    pub resets_without_lag: u64,
    pub pops_on_empty_skipped_under_c15: u64,
    pub quiescent_checks: u64,
    pub param_changes: u64,
    pub param_consumed: u64,
    pub batches_out: u64,
    pub multi_batches_in: u64,
    pub ended: bool,
    pub limit_closed: u64,
    pub wake_checks: u64,
    pub woken_by_param: u64,
    pub bound_checks: u64,
    pub nonempty_views: u64,
    pub top_flat: Vec<D>,
    pub lagged: bool,
    pub stage_state_matches: u64,
    pub kinds_in: std::collections::BTreeSet<&'static str>,
    pub kinds_out: std::collections::BTreeSet<&'static str>,
    pub known: Vec<&'static str>,
    pub ended_early_for_known: bool,
    pub early_stops: u64,
}

pub const SIG_F4: &str = "tail.limit_decrease_beyond_len";
pub const SIG_F6: &str = "sort.truncate_forwarded";

struct Armed {
    total: usize,
    apply_first: usize,
    seen: usize,
}

struct Oracle<'a> {
    h: &'a AdpHistory,
    prop: &'a str,
    known: &'a Known,
    n: usize,
    replicas: Vec<Vec<Item>>,
    ended: Vec<bool>,
    limit_seen: Vec<Option<usize>>,
    announced: Vec<Vec<Option<usize>>>,
    armed: Vec<Option<Armed>>,
    /// per sort stage: the Truncates its input delivered since it last consumed an item:
    /// (length, tags surviving below, tags removed below)
    truncs: Vec<VecDeque<(usize, Vec<u32>, Vec<u32>)>>,
    /// C13: replica after each batch, per tap; and the lower bounds of the last match
    states: Vec<Vec<Vec<Item>>>,
    match_state: Vec<usize>,
    match_param: Vec<usize>,
    boundaries: Vec<Vec<u32>>,
    /// upper bound of the messages published since the source stream last answered Pending
    msgs_upper: u64,
    match_boundary: usize,
    cursor: usize,
    src_alive: bool,
    facts: AFacts,
    stop_for_known: bool,
    removed_by_truncate: Vec<u32>,
    /// per tap: its last poll answered Pending (or the end) - it has nothing more to give right now
    idle: Vec<bool>,
    /// per tap: polled at all during the current poll of the top stream
    polled_now: Vec<bool>,
}

/// a stage's view at a quiescent point: the stage's own property and C12 (C13 speaks about the view after each
/// emitted batch and is judged by `after_batch`, the empty-batch test and the flavour comparison)
fn view_tags(spec: &Stage) -> &'static str {
    match spec.prop() {
        "C09" => "C09|C12",
        "C10" => "C10|C12",
        _ => "C11|C12",
    }
}

/// the end of a stage's stream: only C09/C10/C11 say when an adapter's stream ends
fn own_tag(spec: &Stage) -> &'static str {
    match spec.prop() {
        "C09" => "C09",
        "C10" => "C10",
        _ => "C11",
    }
}

fn stage_tags(spec: &Stage, batched: bool) -> &'static str {
    match (spec.prop(), batched) {
        ("C09", false) => "C09|C12",
        ("C09", true) => "C09|C12|C13",
        ("C10", false) => "C10|C12",
        ("C10", true) => "C10|C12|C13",
        (_, false) => "C11|C12",
        (_, true) => "C11|C12|C13",
    }
}

impl<'a> Oracle<'a> {
    fn div<X>(&self, tags: &'static str, what: String) -> Result<X, Div> {
        crate::common::note_divergence(tags, &what);
        Err(Div { prop: tags, what })
    }

    /// A known finding is handled (replica resynchronised, history continued or cut) if it is listed
    /// for the property being checked, or if it is no violation of that property at all.
    fn suppress(&self, sig: &str) -> bool {
        let owners: &[&str] = if sig == SIG_F4 { &["C09", "C12", "C13"] } else { &["C11", "C12", "C13"] };
        self.known.has(self.prop, sig) || !owners.contains(&self.prop)
    }

    /// The window of an armed F4 recognition closes (the stage consumed a new input or limit, or the
    /// drain ended). The known finding is exactly "(old-new) PopFronts"; any other number of surplus
    /// PopFronts is a different fault and is reported.
    fn disarm(&mut self, k: usize) -> Result<(), Div> {
        if let Some(a) = self.armed[k].take() {
            if a.seen > a.apply_first && a.seen != a.total {
                return self.div(
                    stage_tags(&self.h.chain[k - 1], self.h.batched),
                    format!(
                        "stage {k} ({}) emitted {} PopFronts for a limit decrease that should pop {} (the known finding is exactly {})",
                        self.h.chain[k - 1].show(),
                        a.seen,
                        a.apply_first,
                        a.total
                    ),
                );
            }
        }
        Ok(())
    }

    fn param_now(&self, k: usize) -> Option<usize> {
        *self.announced[k].last().unwrap()
    }

    /// replay the new part of the event log
    fn process(&mut self, log: &Log) -> Result<(), Div> {
        let events = log.borrow();
        while self.cursor < events.len() {
            let e = &events[self.cursor];
            self.cursor += 1;
            match &e.k {
                EvK::Limit(v) => {
                    let k = e.tap;
                    self.facts.param_consumed += 1;
                    let spec = self.h.chain[k - 1];
                    self.disarm(k)?;
                    if spec.is_tail() && self.suppress(SIG_F4) {
                        let old = self.limit_seen[k].unwrap_or(0);
                        let len = self.replicas[k - 1].len();
                        if old > len && len > *v && *v > 0 {
                            self.armed[k] = Some(Armed { total: old - v, apply_first: len - v, seen: 0 });
                        }
                    }
                    self.limit_seen[k] = Some(*v);
                }
                EvK::LimitEnd => {}
                EvK::Pending => {
                    self.idle[e.tap] = true;
                    self.polled_now[e.tap] = true;
                    if e.tap == 0 {
                        // the source stream has caught up
                        self.msgs_upper = 0;
                    }
                }
                EvK::End => {
                    let k = e.tap;
                    self.idle[k] = true;
                    self.polled_now[k] = true;
                    if !self.ended[k] {
                        let below_ended = if k == 0 { !self.src_alive } else { self.ended[k - 1] };
                        if !below_ended {
                            return if k == 0 {
                                self.div("C08", "source stream ended while the vector is alive".into())
                            } else {
                                self.div(
                                    own_tag(&self.h.chain[k - 1]),
                                    format!("stage {k} ({}) ended although its source stream has not", self.h.chain[k - 1].show()),
                                )
                            };
                        }
                    }
                    self.ended[k] = true;
                }
                EvK::Item(ds) => {
                    let k = e.tap;
                    self.idle[k] = false;
                    self.polled_now[k] = true;
                    if self.ended[k] {
                        let tag = if k == 0 { "C08" } else { own_tag(&self.h.chain[k - 1]) };
                        return self.div(tag, format!("tap {k} yielded an item after its end"));
                    }
                    if k + 1 <= self.n {
                        // the stage above consumed a new input: an armed limit change is over, and
                        // Truncates of earlier inputs that were not answered by a Truncate are stale
                        self.disarm(k + 1)?;
                        self.truncs[k + 1].clear();
                    }
                    if ds.is_empty() {
                        return if k == 0 {
                            self.div("C07", "source stream delivered an empty batch".into())
                        } else {
                            self.div(
                                "C13",
                                format!("stage {k} ({}) emitted an empty batch", self.h.chain[k - 1].show()),
                            )
                        };
                    }
                    if k == 0 {
                        if ds.len() > 1 {
                            self.facts.multi_batches_in += 1;
                        }
                        for d in ds {
                            self.facts.diffs_in += 1;
                            self.facts.kinds_in.insert(d.kind());
                            if matches!(d, D::Reset(_)) {
                                self.facts.resets_in += 1;
                                // a Reset is the repair of a lag only if more than `capacity` messages can have
                                // been waiting (upper bound of what was published since the source stream last
                                // answered Pending); otherwise the stream is not lagging by the harness's count
                                if self.msgs_upper > self.h.capacity as u64 {
                                    self.facts.lagged = true;
                                } else {
                                    self.facts.resets_without_lag += 1;
                                }
                            }
                        }
                    }
                    if k == self.n {
                        self.facts.batches_out += 1;
                        for d in ds {
                            self.facts.diffs_out += 1;
                            self.facts.kinds_out.insert(d.kind());
                            self.facts.top_flat.push(d.clone());
                        }
                    }
                    for d in ds {
                        self.apply_one(k, d)?;
                        if self.stop_for_known {
                            return Ok(());
                        }
                    }
                    if self.h.batched {
                        self.after_batch(k)?;
                    }
                }
            }
        }
        Ok(())
    }

    fn apply_one(&mut self, k: usize, d: &D) -> Result<(), Div> {
        let batched = self.h.batched;
        // --- known finding F4: surplus PopFronts of a Tail limit decrease beyond the length
        if k >= 1 {
            if let Some(a) = &mut self.armed[k] {
                if *d == D::PopFront && a.seen < a.total {
                    a.seen += 1;
                    if a.seen > a.apply_first {
                        if a.seen == a.apply_first + 1 {
                            self.facts.known.push(SIG_F4);
                        }
                        if k < self.n {
                            self.stop_for_known = true;
                        }
                        return Ok(()); // surplus pop: not applied, the replica stays at the oracle view
                    }
                } else {
                    self.disarm(k)?;
                }
            }
        }
        // --- known finding F6: Sort forwards Truncate verbatim
        if k >= 1 && self.h.chain[k - 1].is_sort() {
            if let D::Truncate(m) = d {
                if *m <= self.replicas[k].len() {
                    let mut removed_here: Vec<u32> = self.replicas[k][*m..].iter().map(|i| i.id).collect();
                    removed_here.sort_unstable();
                    // input Truncates whose removed elements have all left the view already were
                    // answered in some other way (e.g. by Removes): they are not what this is about
                    let view_tags: std::collections::HashSet<u32> = self.replicas[k].iter().map(|i| i.id).collect();
                    while let Some((_, _, removed)) = self.truncs[k].front() {
                        if removed.iter().any(|t| view_tags.contains(t)) {
                            break;
                        }
                        self.truncs[k].pop_front();
                    }
                    // the oldest unanswered input Truncate is the one this output answers
                    let front = self.truncs[k].front().map(|(n, _, removed)| (*n, *removed == removed_here));
                    match front {
                        // it removes exactly the elements that were removed below: right
                        Some((_, true)) => {
                            self.truncs[k].pop_front();
                        }
                        // same length, other elements: forwarded verbatim (F6)
                        Some((n, false)) if n == *m && self.suppress(SIG_F6) => {
                            let (_, tags, _) = self.truncs[k].pop_front().unwrap();
                            self.facts.known.push(SIG_F6);
                            // what the adapter's own buffer holds: the previous view without the
                            // elements that did not survive below
                            let r = &mut self.replicas[k];
                            r.retain(|i| tags.binary_search(&i.id).is_ok());
                            if k < self.n {
                                self.stop_for_known = true;
                            }
                            return Ok(());
                        }
                        _ => {}
                    }
                }
            }
        }
        if let D::Truncate(n) = d {
            self.removed_by_truncate =
                if *n <= self.replicas[k].len() { self.replicas[k][*n..].iter().map(|i| i.id).collect() } else { vec![] };
        }
        if let Err(e) = d.checked_apply(&mut self.replicas[k]) {
            // (while C15's check runs, a pop on an empty view is not C15's business - it is what `VectorDiff::apply`
            // makes a no-op of -; the history goes on so that the bound is judged after the diffs that follow)
            if self.prop == "C15" && k >= 1 && matches!(d, D::PopFront | D::PopBack) {
                self.facts.pops_on_empty_skipped_under_c15 += 1;
                return Ok(());
            }
            return if k == 0 {
                self.div("C05|C06", format!("source diff {} is inapplicable: {e}", d.show()))
            } else {
                self.div(
                    stage_tags(&self.h.chain[k - 1], batched),
                    format!("stage {k} ({}) emitted {} which is inapplicable to its view: {e}", self.h.chain[k - 1].show(), d.show()),
                )
            };
        }
        // record Truncates for a sort stage above
        if k < self.n && self.h.chain[k].is_sort() {
            if let D::Truncate(n) = d {
                let mut tags: Vec<u32> = self.replicas[k].iter().map(|i| i.id).collect();
                tags.sort_unstable();
                let mut removed = std::mem::take(&mut self.removed_by_truncate);
                removed.sort_unstable();
                self.truncs[k + 1].push_back((*n, tags, removed));
            }
        }
        // C15: a fixed-limit Head/Tail view never exceeds its limit, after every single diff
        if k >= 1 {
            if let Stage::Lim { kind: Kind::Head | Kind::Tail, pk: PK::Static | PK::StaticParts, n, .. } = self.h.chain[k - 1] {
                self.facts.bound_checks += 1;
                // (while the check of another property runs, an excess between two diffs is not that property's
                // business: the history goes on, and what the view looks like at the next Pending is judged)
                if self.replicas[k].len() > n && self.prop == "C15" {
                    return self.div(
                        "C15",
                        format!(
                            "stage {k} ({}) holds {} items after {} (limit {n})",
                            self.h.chain[k - 1].show(),
                            self.replicas[k].len(),
                            d.show()
                        ),
                    );
                }
            }
        }
        Ok(())
    }

    /// C13: after every batch, the view equals the stage's view of a state its input really had
    fn after_batch(&mut self, k: usize) -> Result<(), Div> {
        let r = self.replicas[k].clone();
        if k == 0 {
            let rv = vals(&r);
            let found = (self.match_boundary..self.boundaries.len()).find(|&j| self.boundaries[j] == rv);
            match found {
                Some(j) => self.match_boundary = j,
                None => {
                    return self.div(
                        "C06|C13",
                        format!("after a source batch the replica {rv:?} is no state the vector had between top-level operations"),
                    )
                }
            }
        } else {
            let spec = self.h.chain[k - 1];
            let states = &self.states[k - 1];
            let params = &self.announced[k];
            let mut best: Option<(usize, usize)> = None;
            for i in self.match_state[k]..states.len() {
                for j in self.match_param[k]..params.len() {
                    if conforms(&spec, params[j], &states[i], &r) {
                        best = Some(match best {
                            None => (i, j),
                            Some((bi, bj)) => (bi.min(i), bj.min(j)),
                        });
                    }
                }
            }
            match best {
                Some((i, j)) => {
                    self.match_state[k] = i;
                    self.match_param[k] = j;
                    self.facts.stage_state_matches += 1;
                }
                None => {
                    return self.div(
                        "C13",
                        format!(
                            "after a batch, stage {k} ({}) shows {:?}, which is its view of none of the {} states its input had since the last batch (parameters {:?})",
                            spec.show(),
                            vals(&r),
                            states.len() - self.match_state[k],
                            &params[self.match_param[k]..]
                        ),
                    )
                }
            }
        }
        self.states[k].push(r);
        Ok(())
    }

    /// top stream answered Pending: every stage must show its view of the stage below
    fn quiescent(&mut self, contents: &[Item]) -> Result<(), Div> {
        self.facts.quiescent_checks += 1;
        // The top stream said Pending. A stage whose input stream was not Pending at its last poll stopped
        // early: what it shows is then judged against what its input holds *now* (for the first stage: the
        // vector's contents at this moment), not against what it happened to consume.
        let busy: Vec<usize> = (0..self.n).filter(|j| !self.idle[*j]).collect();
        if busy.is_empty() && self.n >= 1 && !self.polled_now[0] && vals(&self.replicas[0]) != vals(contents) {
            // Some stage answered Pending without polling its input at all although the source has changed since
            // (the source stream cannot be blamed for what it was not asked). That stage is the highest one whose
            // input tap saw no poll; what it shows is judged against what its input holds now, composed from the
            // vector's contents through the stages below it.
            let kk = (1..=self.n).rev().find(|k| !self.polled_now[*k - 1]).unwrap();
            let mut ideal: Vec<Item> = contents.to_vec();
            let mut judgeable = !self.stop_for_known && self.armed.iter().all(|a| a.is_none());
            for j in 1..kk {
                let sp = self.h.chain[j - 1];
                if matches!(sp, Stage::SortByKey) {
                    judgeable = false;
                }
                let p = if sp.dynamic() { self.param_now(j) } else { self.limit_seen[j] };
                ideal = view(&sp, p, &ideal);
            }
            if judgeable {
                let spec = self.h.chain[kk - 1];
                let p = if spec.dynamic() { self.param_now(kk) } else { self.limit_seen[kk] };
                self.facts.early_stops += 1;
                if !conforms(&spec, p, &ideal, &self.replicas[kk]) {
                    return self.div(
                        view_tags(&spec),
                        format!(
                            "at a quiescent point: stage {kk} ({}, parameter {p:?}) reported Pending without polling its input, which has changed; it shows {:?} while its input holds {:?} now",
                            spec.show(),
                            vals(&self.replicas[kk]),
                            vals(&ideal)
                        ),
                    );
                }
            }
            // harmless (or not judgeable): the replicas below that stage are stale by construction, nothing
            // more can be said at this point
            for q in &mut self.truncs {
                q.clear();
            }
            return Ok(());
        }
        if busy.len() == 1 && !self.stop_for_known {
            let j = busy[0];
            let ambiguous = j > 0 && matches!(self.h.chain[j - 1], Stage::SortByKey);
            if (j == 0 || vals(&self.replicas[0]) == vals(contents)) && !ambiguous && self.armed.iter().all(|a| a.is_none()) {
                let input_now: Vec<Item> = if j == 0 {
                    contents.to_vec()
                } else {
                    let sp = self.h.chain[j - 1];
                    let p = if sp.dynamic() { self.param_now(j) } else { self.limit_seen[j] };
                    view(&sp, p, &self.replicas[j - 1])
                };
                let spec = self.h.chain[j];
                let p = if spec.dynamic() { self.param_now(j + 1) } else { self.limit_seen[j + 1] };
                self.facts.early_stops += 1;
                if !conforms(&spec, p, &input_now, &self.replicas[j + 1]) {
                    return self.div(
                        view_tags(&spec),
                        format!(
                            "at a quiescent point: stage {} ({}, parameter {p:?}) reported Pending although its input stream had more items ready; it shows {:?} while its input holds {:?} now",
                            j + 1,
                            spec.show(),
                            vals(&self.replicas[j + 1]),
                            vals(&input_now)
                        ),
                    );
                }
                // a harmless early stop (what is left does not change the view); the relations between the
                // consumed inputs and the views are still checked below
                for k in 1..=self.n {
                    self.disarm(k)?;
                }
                self.check_views("at a quiescent point")?;
                for q in &mut self.truncs {
                    q.clear();
                }
                return Ok(());
            }
        }
        if vals(&self.replicas[0]) != vals(contents) {
            return self.div(
                "C05|C06",
                format!("source replica {:?} != contents {:?} at a quiescent point", vals(&self.replicas[0]), vals(contents)),
            );
        }
        for k in 1..=self.n {
            self.disarm(k)?;
        }
        self.check_views("at a quiescent point")?;
        for q in &mut self.truncs {
            q.clear();
        }
        Ok(())
    }

    fn check_views(&mut self, when: &str) -> Result<(), Div> {
        let at_end = when.starts_with("at the end");
        for k in 1..=self.n {
            let spec = self.h.chain[k - 1];
            // a stage below the top whose own stream did not answer Pending at its last poll has not claimed
            // anything about its view yet (it may hold parked diffs nobody asked for)
            if !at_end && k < self.n && !self.idle[k] {
                continue;
            }
            let p = if spec.dynamic() { self.param_now(k) } else { self.limit_seen[k] };
            // the properties speak about Pending points; when the stream ends, a limit announced after
            // the last Pending need not have been consumed: the last consumed one is accepted as well
            let ok_consumed = at_end && spec.dynamic() && conforms(&spec, self.limit_seen[k], &self.replicas[k - 1], &self.replicas[k]);
            if !ok_consumed && !conforms(&spec, p, &self.replicas[k - 1], &self.replicas[k]) {
                return self.div(
                    view_tags(&spec),
                    format!(
                        "{when}: stage {k} ({}, parameter {p:?}) shows {:?}; its input is {:?}, expected {}{:?}",
                        spec.show(),
                        vals(&self.replicas[k]),
                        vals(&self.replicas[k - 1]),
                        if spec.is_sort() { "a sorted permutation like " } else { "" },
                        vals(&view(&spec, p, &self.replicas[k - 1]))
                    ),
                );
            }
            if !self.replicas[k].is_empty() {
                self.facts.nonempty_views += 1;
            }
        }
        Ok(())
    }
}

/// Run one adapter history; all monitors armed. `prop` only selects which known findings are
/// enabled (a finding not listed for `prop` surfaces as an ordinary divergence).
pub fn run_adp_history(h: &AdpHistory, prop: &str, known: &Known) -> Result<AFacts, Div> {
    table_reset();
    LEAKED.with(|l| l.set(false));
    let r = run_inner(h, prop, known);
    let (live, faults, ids) = table_finish();
    let r = r?;
    if r.ended_early_for_known {
        // the history was cut short after a known finding in a lower stage: upper stages may have
        // panicked mid-poll, no accounting verdict from this history
        return Ok(r);
    }
    if let Some(f) = faults.first() {
        return Err(Div { prop: "C20", what: format!("{f} ({} fault(s))", faults.len()) });
    }
    if live != 0 && !LEAKED.with(|l| l.get()) {
        return Err(Div { prop: "C20", what: format!("{live} value(s) still alive after everything was dropped (ids {ids:?})") });
    }
    Ok(r)
}

fn run_inner(h: &AdpHistory, prop: &str, known: &Known) -> Result<AFacts, Div> {
    let n = h.chain.len();
    let mut ob: Option<ObservableVector<T>> = Some(make_vector(h.capacity, &h.init));
    let log: Log = Rc::new(RefCell::new(Vec::new()));
    let sub = ob.as_ref().unwrap().subscribe();
    let (mut top, inits, mut ctls, limit0) = if h.batched {
        let (v, s) = sub.batched().into_parts();
        let b = build_chain_b(&h.chain, v, Box::pin(s), &log);
        (Top::B(b.top), b.inits, b.ctls, b.limit0)
    } else {
        let (v, s) = sub.into_values_and_stream();
        let b = build_chain_u(&h.chain, v, Box::pin(s), &log);
        (Top::U(b.top), b.inits, b.ctls, b.limit0)
    };
    let contents0 = contents(ob.as_ref().unwrap());
    let mut o = Oracle {
        h,
        prop,
        known,
        n,
        replicas: inits.clone(),
        ended: vec![false; n + 1],
        limit_seen: limit0.clone(),
        announced: limit0.iter().map(|l| vec![*l]).collect(),
        armed: (0..=n + 1).map(|_| None).collect(),
        truncs: (0..=n + 1).map(|_| VecDeque::new()).collect(),
        states: inits.iter().map(|i| vec![i.clone()]).collect(),
        match_state: vec![0; n + 1],
        match_param: vec![0; n + 1],
        boundaries: vec![vals(&contents0)],
        msgs_upper: 0,
        match_boundary: 0,
        cursor: 0,
        src_alive: true,
        facts: AFacts::default(),
        stop_for_known: false,
        removed_by_truncate: vec![],
        idle: vec![false; n + 1],
        polled_now: vec![false; n + 1],
    };
    // construction may already have consumed events (DynPartsPolled): the initial values of that
    // stage are its view *after* those; replay the log for the taps below it first.
    {
        // replicas of taps below a polled stage must reflect what was consumed during construction
        let saved: Vec<Vec<Item>> = o.replicas.clone();
        o.process(&log)?;
        // stages at/above a polled stage got their initial values after the polls: restore those
        if let Some(first_polled) = h.chain.iter().position(|s| matches!(s, Stage::Lim { pk: PK::DynPartsPolled, .. })) {
            for k in first_polled + 1..=n {
                o.replicas[k] = saved[k].clone();
                o.states[k] = vec![saved[k].clone()];
            }
        }
    }
    // initial values: every stage's initial values are its view of the initial values below
    if vals(&o.replicas[0]) != vals(&contents0) {
        return o.div("C05", format!("snapshot {:?} != contents {:?}", vals(&o.replicas[0]), vals(&contents0)));
    }
    o.check_views("initial values")?;
    // C15 for initial values
    for k in 1..=n {
        if let Stage::Lim { kind: Kind::Head | Kind::Tail, pk: PK::Static | PK::StaticParts, n: lim, .. } = h.chain[k - 1] {
            if o.replicas[k].len() > lim {
                return o.div("C15", format!("initial values of stage {k} ({}) have {} items", h.chain[k - 1].show(), o.replicas[k].len()));
            }
        }
    }

    // (flag of the last Pending poll, its wake count at that poll)
    let mut last_pending: Option<(Arc<FlagWaker>, u64)> = None;
    let mut top_ended = false;
    // (in one-waker mode half of the histories use the worker thread's long-lived waker, see common::task_waker)
    let shared_waker = if h.same_waker && hash_of(h) % 2 == 0 { task_waker() } else { flag_waker() };
    let same_waker = h.same_waker;

    // one poll of the top stream; returns Some(true) = item, Some(false) = Pending, None = end
    let poll_top = |top: &mut Top,
                        o: &mut Oracle<'_>,
                        last_pending: &mut Option<(Arc<FlagWaker>, u64)>,
                        top_ended: &mut bool,
                        ob: &Option<ObservableVector<T>>,
                        fin: &Option<Vec<Item>>|
     -> Result<Option<bool>, Div> {
        let (flag, w) = if same_waker { (shared_waker.0.clone(), shared_waker.1.clone()) } else { flag_waker() };
        let wakes_before = flag.wakes.load(std::sync::atomic::Ordering::SeqCst);
        let mut cx = Context::from_waker(&w);
        for x in o.polled_now.iter_mut() {
            *x = false;
        }
        let r = catch_unwind(AssertUnwindSafe(|| match top {
            Top::U(s) => s.as_mut().poll_next(&mut cx).map(|o| o.is_some()),
            Top::B(s) => s.as_mut().poll_next(&mut cx).map(|o| o.is_some()),
        }));
        let r = match r {
            Ok(r) => r,
            Err(_) => {
                // replay what was logged before the panic: a fault (or known finding) below owns it
                o.process(&log)?;
                if o.stop_for_known {
                    return Ok(None);
                }
                return Err(Div { prop: "PANIC", what: format!("panic inside poll_next of the chain: {}", last_panic()) });
            }
        };
        // C14: never ready again without the waker of the last Pending poll having been woken
        if let Some((f, at)) = last_pending.as_ref() {
            o.facts.wake_checks += 1;
            // (wake count sampled before this poll: a wake during the poll itself does not count)
            let woken_since = if same_waker { wakes_before > *at } else { f.woken() };
            if r.is_ready() && !woken_since {
                return Err(Div {
                    prop: "C14",
                    what: "the stream became ready although the waker of its last Pending poll was never woken".into(),
                });
            }
        }
        *last_pending = None;
        o.process(&log)?;
        if o.stop_for_known {
            return Ok(None);
        }
        match r {
            Poll::Ready(true) => {
                if *top_ended {
                    return Err(Div { prop: "C08|C09|C10|C11|C12", what: "item after the end of the stream".into() });
                }
                Ok(Some(true))
            }
            Poll::Ready(false) => {
                *top_ended = true;
                o.facts.ended = true;
                if o.src_alive {
                    // early end is reported by process() with the owning stage; if we get here the
                    // taps say the source ended, which is wrong too
                    return Err(Div { prop: "C08|C09|C10|C11|C12", what: "the stream ended while the vector is alive".into() });
                }
                let f = fin.clone().unwrap_or_default();
                if vals(&o.replicas[0]) != vals(&f) {
                    return o.div("C08", format!("source replica {:?} != final contents {:?} at the end", vals(&o.replicas[0]), vals(&f)));
                }
                o.check_views("at the end of the stream")?;
                Ok(None)
            }
            Poll::Pending => {
                if *top_ended {
                    return Err(Div { prop: "C08|C09|C10|C11|C12", what: "Pending after the end of the stream".into() });
                }
                if !o.src_alive {
                    // find the stage that does not propagate the end
                    let k = (0..=o.n).find(|&k| !o.ended[k]).unwrap_or(0);
                    return if k == 0 {
                        o.div("C08", "source stream is Pending although the vector was dropped".into())
                    } else {
                        o.div(
                            own_tag(&o.h.chain[k - 1]),
                            format!("stage {k} ({}) is Pending although its source stream has ended", o.h.chain[k - 1].show()),
                        )
                    };
                }
                let c = contents(ob.as_ref().unwrap());
                o.quiescent(&c)?;
                // (in same-waker mode a wake delivered during this very poll - a cooperative yield - counts)
                let at = if same_waker { wakes_before } else { flag.wakes.load(std::sync::atomic::Ordering::SeqCst) };
                *last_pending = Some((flag, at));
                Ok(Some(false))
            }
        }
    };

    let mut fin: Option<Vec<Item>> = None;
    let mut model: Vec<u32> = vals(&contents0);
    let mut max_len_seen = model.len();

    macro_rules! drain {
        ($max:expr) => {{
            let max: usize = $max;
            // logical budget of one drain: no correct translation of this history emits more diffs than
            // 8 x operations x (the longest the vector has been + 4) - ten thousand for ordinary histories
            max_len_seen = max_len_seen.max(model.len());
            let unbounded = 10_000usize.max(8 * h.ops.len() * (max_len_seen + 4));
            let budget = if max == 0 { unbounded } else { max };
            let mut left = budget;
            loop {
                if left == 0 {
                    if max == 0 {
                        return Err(Div { prop: "PANIC", what: format!("the stream answered Ready {unbounded} times in one drain") });
                    }
                    break;
                }
                left -= 1;
                match poll_top(&mut top, &mut o, &mut last_pending, &mut top_ended, &ob, &fin)? {
                    Some(true) => continue,
                    _ => break,
                }
            }
            if o.stop_for_known {
                o.facts.ended_early_for_known = true;
                let f = o.facts.clone();
                // leak nothing: drop order below is the normal one
                drop(top);
                drop(ctls);
                drop(ob);
                return Ok(f);
            }
        }};
    }

    // bystander objects on the same thread (noise.rs) in a quarter of the longer histories
    let mut noise: Option<crate::noise::Noise> =
        if h.ops.len() > 12 && crate::common::hash_of(h) % 4 == 0 { Some(crate::noise::Noise::new()) } else { None };
    let noise_seed = crate::common::hash_of(h);
    let mut noise_step = 0u64;
    for op in &h.ops {
        if let Some(nz) = noise.as_mut() {
            noise_step += 1;
            if let Err((tags, what)) = nz.tick(crate::common::mix(noise_seed, noise_step)) {
                crate::common::note_divergence(tags, &what);
                return Err(Div { prop: tags, what });
            }
        }
        match op {
            AOp::Src(vop) => {
                let Some(obr) = ob.as_mut() else { continue };
                exec_src(obr, vop);
                o.msgs_upper += vop.max_messages();
                apply_model(&mut model, vop);
                let c = vals(&contents(obr));
                if c != model {
                    return Err(Div { prop: "C17", what: format!("contents {c:?} != model {model:?} after {}", vop.show()) });
                }
                o.boundaries.push(c);
            }
            AOp::Param(stage, v) => {
                let k = *stage;
                if k == 0 || k > n || top_ended {
                    continue;
                }
                if let Some(ctl) = ctls[k].as_mut() {
                    if ctl.set(*v) {
                        o.announced[k].push(Some(*v));
                        o.facts.param_changes += 1;
                    }
                }
            }
            AOp::CloseParam(stage) => {
                let k = *stage;
                if k == 0 || k > n || top_ended {
                    continue;
                }
                if ctls[k].is_some() {
                    // an observable-backed limit stream loses a value that was never polled when
                    // the observable is dropped: let the adapter consume what was announced first
                    if ctls[k].as_ref().unwrap().is_obs() {
                        drain!(0);
                    }
                    ctls[k].as_mut().unwrap().close();
                    o.facts.limit_closed += 1;
                }
            }
            AOp::Poll(max) => {
                if !top_ended {
                    drain!(*max);
                }
            }
            AOp::DropSrc => {
                if let Some(obr) = ob.take() {
                    fin = Some(contents(&obr));
                    o.src_alive = false;
                    drop(obr);
                }
            }
        }
        if h.eager && !top_ended {
            let before = last_pending.clone();
            drain!(0);
            if let (Some((f, at)), AOp::Param(..)) = (before, op) {
                if f.wakes.load(std::sync::atomic::Ordering::SeqCst) > at {
                    o.facts.woken_by_param += 1;
                }
            }
        }
    }
    // end of history: drop the source and drain to the end
    if let Some(obr) = ob.take() {
        fin = Some(contents(&obr));
        o.src_alive = false;
        drop(obr);
    }
    if !top_ended {
        drain!(0);
        if !top_ended {
            return Err(Div { prop: "C08|C09|C10|C11|C12", what: "the stream did not end after the vector was dropped".into() });
        }
    }
    // after the end: keeps answering None
    let again = {
        let (_f, w) = flag_waker();
        let mut cx = Context::from_waker(&w);
        catch_unwind(AssertUnwindSafe(|| match &mut top {
            Top::U(s) => s.as_mut().poll_next(&mut cx).map(|o| o.is_some()),
            Top::B(s) => s.as_mut().poll_next(&mut cx).map(|o| o.is_some()),
        }))
    };
    match again {
        Ok(Poll::Ready(false)) => {}
        Ok(other) => {
            // polling a finished stream again is allowed to do anything by the Stream contract except
            // for the library's own subscriber streams; only count it
            let _ = other;
        }
        Err(_) => {}
    }
    let f = o.facts.clone();
    drop(top);
    drop(ctls);
    Ok(f)
}

thread_local! {
    /// a transaction was leaked in the current history (its values stay alive: not a C20 fault)
    static LEAKED: std::cell::Cell<bool> = const { std::cell::Cell::new(false) };
}

fn exec_src(ob: &mut ObservableVector<T>, vop: &VOp) {
    match vop {
        VOp::Txn(body, end) => {
            let mut tx = ob.transaction();
            for op in body {
                let _ = exec_on_txn(&mut tx, op, &mut || {});
            }
            match end {
                TxEnd::Commit => tx.commit(),
                TxEnd::Drop => drop(tx),
                TxEnd::Forget => {
                    LEAKED.with(|l| l.set(true));
                    std::mem::forget(tx)
                }
                TxEnd::RollbackDrop => {
                    tx.rollback();
                    drop(tx);
                }
                TxEnd::RollbackThen(more, c) => {
                    tx.rollback();
                    for op in more {
                        let _ = exec_on_txn(&mut tx, op, &mut || {});
                    }
                    if *c {
                        tx.commit();
                    }
                }
            }
        }
        _ => {
            let _ = exec_on_vec(ob, vop, &mut || {});
        }
    }
}
