//! Two adapters driven by ONE limit/count observable (C14, C09): the limit `Subscriber` is polled some times
//! before it is handed to the first adapter, then cloned (`clone`, `clone_reset`) or joined by an independent
//! subscriber for the second adapter; the two adapters are polled with different wakers (a fresh one per poll).
//! Oracle: a stream that answers Ready after a Pending poll must have had that poll's waker woken (C14); at every
//! Pending the rebuilt view is the first / last / all-but-first `p` items of the source with the limit the
//! adapter has consumed (C09); neither adapter ends before the source does.

use std::{
    pin::Pin,
    sync::Arc,
    task::{Context, Poll},
};

use eyeball::{Observable, Subscriber};
use eyeball_im::{ObservableVector, VectorDiff};
use eyeball_im_util::vector::VectorObserverExt;
use futures_core::Stream;
use serde_json::json;

use crate::{common::*, Params};

type Dyn1 = Pin<Box<dyn Stream<Item = VectorDiff<Tracked>>>>;

struct Ad {
    name: String,
    kind: usize,
    s: Dyn1,
    replica: Vec<Item>,
    /// the limit this adapter has consumed
    limit: Option<usize>,
    /// its limit subscriber has a value it has not handed to the adapter yet
    unseen: bool,
    last_pending: Option<Arc<FlagWaker>>,
    /// twin-waker mode: this adapter is always polled with the same waker, one of two that share a data pointer;
    /// wakes are judged by counts (`pending_at` = its count at the last Pending poll)
    twin: Option<(Arc<Twin>, usize, std::task::Waker)>,
    is_pending: bool,
    pending_at: u64,
    ended: bool,
    /// which source vector it watches
    src: usize,
}

impl Ad {
    fn waker(&self) -> (Option<Arc<FlagWaker>>, std::task::Waker) {
        match &self.twin {
            Some((_, _, w)) => (None, w.clone()),
            None => {
                let (f, w) = flag_waker();
                (Some(f), w)
            }
        }
    }
    fn woken_since_pending(&self) -> bool {
        match &self.twin {
            Some((t, k, _)) => t.wakes[*k].load(std::sync::atomic::Ordering::SeqCst) > self.pending_at,
            None => self.last_pending.as_ref().map_or(true, |p| p.woken()),
        }
    }
    fn note_pending(&mut self, flag: Option<Arc<FlagWaker>>) {
        self.is_pending = true;
        self.last_pending = flag;
        if let Some((t, k, _)) = &self.twin {
            self.pending_at = t.wakes[*k].load(std::sync::atomic::Ordering::SeqCst);
        }
    }
}

fn view(kind: usize, p: Option<usize>, input: &[Item]) -> Vec<Item> {
    match (kind, p) {
        (0, p) => input.iter().take(p.unwrap_or(0)).cloned().collect(),
        (1, p) => input[input.len().saturating_sub(p.unwrap_or(0))..].to_vec(),
        (_, None) => vec![],
        (_, Some(c)) => input.iter().skip(c).cloned().collect(),
    }
}

fn build(kind: usize, init: Option<usize>, src: eyeball_im::VectorSubscriber<Tracked>, lim: Subscriber<usize>) -> (Vec<Item>, Dyn1) {
    match (kind, init) {
        (0, None) => (vec![], Box::pin(src.dynamic_head(lim))),
        (0, Some(n)) => {
            let (v, s) = src.dynamic_head_with_initial_value(n, lim);
            (items_of(v.iter()), Box::pin(s))
        }
        (1, None) => (vec![], Box::pin(src.dynamic_tail(lim))),
        (1, Some(n)) => {
            let (v, s) = src.dynamic_tail_with_initial_value(n, lim);
            (items_of(v.iter()), Box::pin(s))
        }
        (_, None) => (vec![], Box::pin(src.dynamic_skip(lim))),
        (_, Some(n)) => {
            let (v, s) = src.dynamic_skip_with_initial_count(n, lim);
            (items_of(v.iter()), Box::pin(s))
        }
    }
}

/// poll until Pending / end; complaint = (tags, text)
fn drain(a: &mut Ad, cur_limit: Option<usize>, contents: &[Item], src_alive: bool, log: &mut Vec<String>) -> Option<(&'static str, String)> {
    if a.ended {
        return None;
    }
    for _ in 0..10_000 {
        let (flag, waker) = a.waker();
        let mut cx = Context::from_waker(&waker);
        let r = a.s.as_mut().poll_next(&mut cx);
        if r.is_ready() {
            if a.is_pending && !a.woken_since_pending() {
                return Some((
                    "C14",
                    format!("{}: the stream is ready again ({}) although the waker supplied to its last Pending poll was never woken", a.name, match &r {
                        Poll::Ready(Some(d)) => D::of(d).show(),
                        _ => "end".into(),
                    }),
                ));
            }
            a.is_pending = false;
            a.last_pending = None;
        }
        match r {
            Poll::Ready(Some(d)) => {
                let d = D::of(&d);
                if let Err(e) = d.checked_apply(&mut a.replica) {
                    return Some(("C09", format!("{}: emitted {} which is inapplicable to its view: {e}", a.name, d.show())));
                }
            }
            Poll::Ready(None) => {
                a.ended = true;
                if src_alive {
                    return Some(("C09", format!("{}: the stream ended although its source is alive", a.name)));
                }
                break;
            }
            Poll::Pending => {
                a.note_pending(flag);
                if !src_alive {
                    return Some(("C09", format!("{}: Pending although the source vector was dropped", a.name)));
                }
                break;
            }
        }
    }
    // the adapter polls its limit stream first: whatever was unseen has been consumed now
    if a.unseen {
        a.unseen = false;
        if let Some(l) = cur_limit {
            a.limit = Some(l);
        }
    }
    let want = view(a.kind, a.limit, contents);
    if vals(&a.replica) != vals(&want) {
        return Some((
            "C09",
            format!("{}: at {} it shows {:?}; the source holds {:?}, limit consumed {:?}: expected {:?}", a.name, if a.ended { "its end" } else { "Pending" }, vals(&a.replica), vals(contents), a.limit, vals(&want)),
        ));
    }
    log.push(format!("drain {} -> {:?}", a.name, vals(&a.replica)));
    None
}

fn pair_case(rng: &mut Rng, log: &mut Vec<String>, ev: &mut Ev) -> Option<(&'static str, String)> {
    let two_sources = rng.chance(1, 3);
    let mut vecs: Vec<Option<ObservableVector<Tracked>>> = vec![];
    for _ in 0..(if two_sources { 2 } else { 1 }) {
        let mut v = ObservableVector::with_capacity(*rng.pick(&[4usize, 16, 64]));
        for _ in 0..rng.below(7) {
            v.push_back(Tracked::new(rng.below(20) as u32));
        }
        vecs.push(Some(v));
    }
    let l0 = rng.below(5);
    let mut limit: Option<Observable<usize>> = Some(Observable::new(l0));
    let mut cur = l0;
    let kinds = [rng.below(3), rng.below(3)];
    let has_tail = kinds.contains(&1);
    // the first limit subscriber, used a little before it is handed on
    let reset0 = rng.chance(1, 3);
    let mut sub = if reset0 { Observable::subscribe_reset(limit.as_ref().unwrap()) } else { Observable::subscribe(limit.as_ref().unwrap()) };
    let mut unseen = reset0;
    log.push(format!("limit observable = {l0}; first limit subscriber by {}", if reset0 { "subscribe_reset" } else { "subscribe" }));
    for _ in 0..rng.below(3) {
        if rng.chance(1, 3) {
            let n = if has_tail { cur + rng.below(3) } else { rng.below(8) };
            Observable::set(limit.as_mut().unwrap(), n);
            cur = n;
            unseen = true;
            log.push(format!("limit := {n}"));
        }
        let (_f, w) = flag_waker();
        let mut cx = Context::from_waker(&w);
        let r = Pin::new(&mut sub).poll_next(&mut cx);
        if r.is_ready() {
            unseen = false;
        }
        log.push(format!("the limit subscriber is polled by hand: {r:?}"));
    }
    // the second one
    let how2 = rng.below(3);
    let (sub2, unseen2) = match how2 {
        0 => (sub.clone(), unseen),
        1 => (sub.clone_reset(), true),
        _ => (Observable::subscribe(limit.as_ref().unwrap()), false),
    };
    log.push(format!("second limit subscriber by {}", ["clone", "clone_reset", "an independent subscribe"][how2]));
    let twins = if rng.chance(1, 3) { Some(twin_wakers()) } else { None };
    let mut ads: Vec<Ad> = vec![];
    for (k, (ls, un)) in [(sub, unseen), (sub2, unseen2)].into_iter().enumerate() {
        let kind = kinds[k];
        // (a Tail is only ever given limits that do not decrease: the known finding F4, a limit decrease beyond
        // the length, is judged by the adapter engine)
        let init = if rng.chance(1, 2) { Some(if kind == 1 { rng.below(l0 + 1) } else { rng.below(5) }) } else { None };
        let src = if two_sources { k } else { 0 };
        let (vals0, s) = build(kind, init, vecs[src].as_ref().unwrap().subscribe(), ls);
        let name = format!("adapter {k} (dynamic_{}{})", ["head", "tail", "skip"][kind], init.map(|n| format!("_with_initial({n})")).unwrap_or_default());
        log.push(format!("{name} over vector {src}"));
        // initial values obey the same rule
        let contents = items_of(vecs[src].as_ref().unwrap().iter());
        let want = view(kind, init, &contents);
        if vals(&vals0) != vals(&want) {
            return Some(("C09", format!("{name}: initial values {:?}, expected {:?}", vals(&vals0), vals(&want))));
        }
        let tw = twins.as_ref().map(|(t, w)| (t.clone(), k, w[k].clone()));
        ads.push(Ad { name, kind, s, replica: vals0, limit: init, unseen: un, last_pending: None, twin: tw, is_pending: false, pending_at: 0, ended: false, src });
    }
    if twins.is_some() {
        // one busy view, one idle one: both are drained once (the idle one second), then the busy one handles a
        // series of source updates - dozens of registrations pile up on the limit observable - and then the limit
        // changes: the idle view's waker must be woken too
        log.push("the two adapters are polled with two wakers that share their data pointer (twin wakers)".into());
        for k in 0..2 {
            let contents = items_of(vecs[ads[k].src].as_ref().unwrap().iter());
            if let Some(c) = drain(&mut ads[k], limit.as_ref().map(|_| cur), &contents, true, log) {
                return Some(c);
            }
        }
        for r in 0..rng.range(18, 45) {
            let src = ads[0].src;
            let v = vecs[src].as_mut().unwrap();
            if r % 2 == 0 {
                v.push_back(Tracked::new(r as u32 % 20));
            } else {
                drop(v.pop_front());
            }
            let contents = items_of(v.iter());
            if let Some(c) = drain(&mut ads[0], limit.as_ref().map(|_| cur), &contents, true, log) {
                return Some(c);
            }
        }
        ev.count("pairs_twin_waker_series");
    }
    let n_ops = rng.range(4, 30);
    for _ in 0..n_ops {
        match rng.below(10) {
            0..=2 => {
                if let Some(l) = limit.as_mut() {
                    let n = if has_tail { cur + rng.below(3) } else { rng.below(9) };
                    Observable::set(l, n);
                    cur = n;
                    for a in ads.iter_mut() {
                        a.unseen = true;
                    }
                    log.push(format!("limit := {n}"));
                    ev.count("pairs_limit_changes");
                }
            }
            3..=5 => {
                let i = rng.below(vecs.len());
                if let Some(v) = vecs[i].as_mut() {
                    let x = rng.below(20) as u32;
                    match rng.below(6) {
                        0 => v.push_front(Tracked::new(x)),
                        1 => drop(v.pop_front()),
                        2 => drop(v.pop_back()),
                        3 if !v.is_empty() => drop(v.set(rng.below(v.len()), Tracked::new(x))),
                        4 if !v.is_empty() => drop(v.remove(rng.below(v.len()))),
                        _ => v.push_back(Tracked::new(x)),
                    }
                    log.push(format!("vector {i} -> {:?}", v.iter().map(|t| t.v).collect::<Vec<_>>()));
                }
            }
            6 if rng.chance(1, 6) => {
                if limit.take().is_some() {
                    // a closed observable answers None before it looks at versions: what was unseen is gone
                    for a in ads.iter_mut() {
                        a.unseen = false;
                    }
                    log.push("the limit observable is dropped".into());
                    ev.count("pairs_limit_observables_dropped");
                }
            }
            7 if rng.chance(1, 8) => {
                let i = rng.below(vecs.len());
                if vecs[i].is_some() {
                    vecs[i] = None;
                    log.push(format!("vector {i} is dropped"));
                }
            }
            _ => {
                let k = rng.below(2);
                let a = &mut ads[k];
                let contents: Vec<Item> = match &vecs[a.src] {
                    Some(v) => items_of(v.iter()),
                    None => a.replica.clone(),
                };
                // after the drop of the source the final contents are what the adapter's input replica ends on;
                // the view is then judged only for the wake implication and the end
                let alive = vecs[a.src].is_some();
                if !alive {
                    // final state unknown to this small model once the vector is gone: only judge wake + end
                    let before_ended = a.ended;
                    let r = drain_end_only(a);
                    if r.is_some() {
                        return r;
                    }
                    if !before_ended && a.ended {
                        ev.count("pairs_adapters_ended_with_their_source");
                    }
                } else if let Some(c) = drain(a, limit.as_ref().map(|_| cur), &contents, alive, log) {
                    return Some(c);
                } else {
                    ev.count("pairs_quiescent_view_checks");
                }
            }
        }
    }
    // final: both drained, with the objects that are still alive
    for a in ads.iter_mut() {
        if let Some(v) = &vecs[a.src] {
            let contents = items_of(v.iter());
            if let Some(c) = drain(a, limit.as_ref().map(|_| cur), &contents, true, log) {
                return Some(c);
            }
        }
    }
    None
}

/// the source is gone: the stream must deliver what is pending and end; the wake implication still holds
fn drain_end_only(a: &mut Ad) -> Option<(&'static str, String)> {
    if a.ended {
        return None;
    }
    for _ in 0..10_000 {
        let (flag, waker) = a.waker();
        let mut cx = Context::from_waker(&waker);
        let r = a.s.as_mut().poll_next(&mut cx);
        if r.is_ready() {
            if a.is_pending && !a.woken_since_pending() {
                return Some(("C14", format!("{}: ready again after the drop of its source although the waker of its last Pending poll was never woken", a.name)));
            }
            a.is_pending = false;
            a.last_pending = None;
        }
        match r {
            Poll::Ready(Some(d)) => {
                let d = D::of(&d);
                if let Err(e) = d.checked_apply(&mut a.replica) {
                    return Some(("C09", format!("{}: emitted {} which is inapplicable to its view: {e}", a.name, d.show())));
                }
            }
            Poll::Ready(None) => {
                a.ended = true;
                return None;
            }
            Poll::Pending => {
                let _ = flag;
                return Some(("C09", format!("{}: Pending although the source vector was dropped", a.name)));
            }
        }
    }
    None
}

/// Two vectors of the same element type on one thread, a transaction open on each at the same time, their
/// operations interleaved and ended in any order (C07, C05): each vector's subscribers receive exactly that
/// vector's committed changes, an abandoned transaction leaves no trace on either.
fn txn_pair_case(rng: &mut Rng, log: &mut Vec<String>, ev: &mut Ev) -> Option<(&'static str, String)> {
    use eyeball_im::ObservableVectorTransaction as Txn;
    let mk = |rng: &mut Rng| {
        let mut v: ObservableVector<Tracked> = ObservableVector::with_capacity(32);
        for _ in 0..rng.below(6) {
            v.push_back(Tracked::new(rng.below(9) as u32));
        }
        v
    };
    let mut va = mk(rng);
    let mut vb = mk(rng);
    // subscribers: none / plain / batched on each side (a vector without receivers records nothing)
    let subs_a = rng.below(3);
    let subs_b = rng.below(3);
    let mut sa = (subs_a > 0).then(|| va.subscribe().into_batched_stream());
    let mut sb = (subs_b > 0).then(|| vb.subscribe().into_batched_stream());
    let pre_a = items_of(va.iter());
    let pre_b = items_of(vb.iter());
    log.push(format!("vector a {:?} ({} subscriber), vector b {:?} ({} subscriber)", vals(&pre_a), subs_a.min(1), vals(&pre_b), subs_b.min(1)));
    fn op(t: &mut Txn<'_, Tracked>, rng: &mut Rng, name: &str, log: &mut Vec<String>) {
        let len = t.len();
        let x = 20 + rng.below(9) as u32;
        let what = match rng.below(9) {
            0 => {
                t.push_front(Tracked::new(x));
                "push_front"
            }
            1 => {
                drop(t.pop_back());
                "pop_back"
            }
            2 => {
                drop(t.pop_front());
                "pop_front"
            }
            3 if len > 0 => {
                drop(t.set(rng.below(len), Tracked::new(x)));
                "set"
            }
            4 if len > 0 => {
                drop(t.remove(rng.below(len)));
                "remove"
            }
            5 if rng.chance(1, 3) => {
                t.clear();
                "clear"
            }
            6 if rng.chance(1, 3) => {
                t.rollback();
                "rollback"
            }
            7 => {
                t.insert(rng.below(len + 1), Tracked::new(x));
                "insert"
            }
            _ => {
                t.push_back(Tracked::new(x));
                "push_back"
            }
        };
        log.push(format!("{name}.{what}"));
    }
    let mut ta = Some(va.transaction());
    let mut tb = Some(vb.transaction());
    let mut committed_a = None;
    let mut committed_b = None;
    let mut view_a = pre_a.clone();
    let mut view_b = pre_b.clone();
    for _ in 0..rng.range(2, 14) {
        match rng.below(8) {
            0..=2 => {
                if let Some(t) = ta.as_mut() {
                    op(t, rng, "ta", log);
                }
            }
            3..=5 => {
                if let Some(t) = tb.as_mut() {
                    op(t, rng, "tb", log);
                }
            }
            6 => {
                if let Some(t) = ta.take() {
                    view_a = items_of(t.iter());
                    let c = rng.chance(2, 3);
                    log.push(format!("ta {}", if c { "commit" } else { "drop" }));
                    if c {
                        t.commit();
                    } else {
                        drop(t);
                    }
                    committed_a = Some(c);
                }
            }
            _ => {
                if let Some(t) = tb.take() {
                    view_b = items_of(t.iter());
                    let c = rng.chance(2, 3);
                    log.push(format!("tb {}", if c { "commit" } else { "drop" }));
                    if c {
                        t.commit();
                    } else {
                        drop(t);
                    }
                    committed_b = Some(c);
                }
            }
        }
    }
    for (t, view, committed, name) in [(ta.take(), &mut view_a, &mut committed_a, "ta"), (tb.take(), &mut view_b, &mut committed_b, "tb")] {
        if let Some(t) = t {
            *view = items_of(t.iter());
            let c = rng.chance(1, 2);
            log.push(format!("{name} {}", if c { "commit" } else { "drop" }));
            if c {
                t.commit();
            } else {
                drop(t);
            }
            *committed = Some(c);
        }
    }
    drop(ta);
    drop(tb);
    ev.count("pairs_interleaved_transaction_pairs");
    for (name, v, pre, view, committed, s) in [("a", &va, &pre_a, &view_a, committed_a, &mut sa), ("b", &vb, &pre_b, &view_b, committed_b, &mut sb)] {
        let post = items_of(v.iter());
        let want = if committed == Some(true) { view.clone() } else { pre.clone() };
        if vals(&post) != vals(&want) {
            return Some(("C07", format!("vector {name}: contents {:?} after its transaction was {}, expected {:?}", vals(&post), if committed == Some(true) { "committed" } else { "dropped" }, vals(&want))));
        }
        if let Some(s) = s.as_mut() {
            let mut rep = pre.clone();
            let mut published: Vec<D> = vec![];
            for _ in 0..100 {
                let (_f, w) = flag_waker();
                let mut cx = Context::from_waker(&w);
                match Pin::new(&mut *s).poll_next(&mut cx) {
                    Poll::Ready(Some(ds)) => {
                        if ds.is_empty() {
                            return Some(("C07", format!("vector {name}: an empty batch was delivered")));
                        }
                        published.extend(ds.iter().map(D::of));
                    }
                    Poll::Ready(None) => return Some(("C08", format!("vector {name}: the stream ended although the vector is alive"))),
                    Poll::Pending => break,
                }
            }
            for d in &published {
                if let Err(e) = d.checked_apply(&mut rep) {
                    return Some(("C05|C07", format!("vector {name}: its subscriber received {} which is inapplicable to {:?}: {e}", show_diffs(&published), vals(pre))));
                }
            }
            if vals(&rep) != vals(&post) {
                return Some((
                    "C05|C07",
                    format!("vector {name}: state before {:?} + what its subscriber received {} = {:?}, but the contents are {:?}", vals(pre), show_diffs(&published), vals(&rep), vals(&post)),
                ));
            }
            if committed != Some(true) && !published.is_empty() {
                return Some(("C07", format!("vector {name}: its transaction was dropped, yet its subscriber received {}", show_diffs(&published))));
            }
        }
    }
    None
}

pub fn run_pairs(p: &Params, prop: &'static str) -> Outcome {
    let seed = p.seed;
    let gen = "shared-limit-pairs";
    p.cases(gen, p.n(30_000, 600_000), move |i, out| {
        let mut rng = Rng::new(mix(seed, mix(hash_of(&gen), i)));
        let case = json!({"gen": gen, "case": i, "seed": seed});
        let mut log: Vec<String> = vec![];
        table_reset();
        out.ev.evaluations += 1;
        let mut ev = Ev::default();
        let r = std::panic::catch_unwind(std::panic::AssertUnwindSafe(|| {
            if i % 3 == 2 {
                txn_pair_case(&mut rng, &mut log, &mut ev)
            } else {
                pair_case(&mut rng, &mut log, &mut ev)
            }
        }));
        out.ev.merge(ev);
        let complaint = match r {
            Ok(c) => c,
            Err(_) => Some(("C05|C07|C09|C14", format!("panic in a history of two objects used side by side: {}", last_panic()))),
        };
        if let Some((tags, what)) = complaint {
            if tags.split('|').any(|t| t == prop) {
                note_divergence(tags, &what);
                out.violations.push(Violation { property: prop.into(), case, history: log, what });
            } else {
                out.ev.foreign += 1;
            }
        } else {
            out.ev.nontrivial(hash_of(&(i, seed)));
        }
    })
}
