//! Marathons: a few histories of tens of thousands of operations on ONE long-lived object (observable, vector,
//! adapter chain), judged by the same engines as the short ones. Counters, indices, generation numbers, ring
//! positions or periodic rebuilds inside the library that wrap, saturate or reach a threshold only after hundreds
//! or thousands of updates / polls / clone-drop cycles are out of reach of histories of a few hundred calls.

use serde_json::json;

use crate::{
    common::*,
    engine_adp::{AFacts, Stage},
    engine_obs::{AsyncFl, OOp, SyncFl},
    engine_vec::{gen_vec_history, judge_vec, Facts, GenCfg},
    runners_adp::{gen_adp_history, gen_stage, judge_adp, AGen, ALL_PKS},
    runners_obs::{gen_obs_history, judge_obs},
    Params,
};

/// which engine a property's marathon runs on
pub fn run_marathons(p: &Params, prop: &'static str) -> Outcome {
    if p.san() {
        return Outcome::default();
    }
    let seed = p.seed;
    let gen = "marathon";
    let on_obs = ["C01", "C02", "C03", "C16", "C19"].contains(&prop);
    let on_vec = ["C05", "C06", "C07", "C17"].contains(&prop);
    let n = p.n(if on_obs { 24 } else { 20 }, 200);
    p.cases(gen, n, move |i, out| {
        let mut rng = Rng::new(mix(seed, mix(hash_of(&gen), i)));
        let case = json!({"gen": gen, "case": i, "seed": seed});
        if on_obs {
            let shared = rng.chance(2, 3);
            let mut h = gen_obs_history(&mut rng, shared, 40_000, 70_000);
            // the object lives for the whole history: nothing that can take the last owner away
            let mut owners_extra = 0usize;
            h.ops.retain(|o| match o {
                OOp::DropOwnerUnwinding(_) | OOp::CloneFromOther(_) | OOp::HandlesUnderGuard(..) => false,
                OOp::Clone(_) => {
                    owners_extra += 1;
                    true
                }
                OOp::DropOwner(_) => {
                    if owners_extra > 0 {
                        owners_extra -= 1;
                    }
                    false
                }
                _ => true,
            });
            h.same_waker = i % 3 == 0;
            if i % 4 == 1 {
                // a very long quiet spell: tens of thousands of Pending polls (on a few or on dozens of subscribers)
                // without any update in between, then an update - or the close - that every one of them is owed
                h.many = 48;
                let subs = rng.range(1, 40);
                let mut storm: Vec<OOp> = (0..subs).map(OOp::Subscribe).collect();
                for _ in 0..rng.range(66_000, 140_000) {
                    storm.push(OOp::Poll(rng.below(subs)));
                }
                storm.push(OOp::Set(0, (1, 7)));
                for k in 0..subs {
                    storm.push(OOp::Poll(k));
                    storm.push(OOp::Poll(k));
                }
                let at = rng.below(h.ops.len() / 100 + 1);
                h.ops.truncate(at + 2000);
                h.ops.splice(at..at, storm);
                out.ev.count("marathon_quiet_spells_of_66000_or_more_pending_polls");
            }
            if i % 4 == 3 && shared {
                // tens of thousands of clone / drop and upgrade / drop cycles on one observable
                let mut storm: Vec<OOp> = vec![OOp::Downgrade(0)];
                for _ in 0..rng.range(66_000, 90_000) {
                    if rng.chance(1, 4) {
                        storm.push(OOp::Upgrade(0));
                    } else {
                        storm.push(OOp::Clone(0));
                    }
                    storm.push(OOp::DropOwner(1));
                }
                let at = rng.below(h.ops.len() / 100 + 1);
                h.ops.truncate(at + 3000);
                h.ops.splice(at..at, storm);
                out.ev.count("marathon_storms_of_66000_or_more_handle_creations");
            }
            out.ev.add("marathon_operations", h.ops.len() as u64);
            if i % 2 == 0 {
                judge_obs::<SyncFl>(prop, &h, &case, out, &|f| f.ready >= 1000);
            } else {
                judge_obs::<AsyncFl>(prop, &h, &case, out, &|f| f.ready >= 1000);
            }
        } else if on_vec {
            let g = GenCfg {
                caps: &[2, 16, 64, 300],
                min_ops: if i % 4 == 2 { 140_000 } else { 30_000 },
                max_ops: if i % 4 == 2 { 200_000 } else { 50_000 },
                maxlen: if i % 4 == 0 { 90 } else { 12 },
                vmax: 9,
                oob: true,
                trav: true,
                txn_pct: 15,
                max_subs: 3,
                poll_pct: 30,
                drop_vec_pct: 0,
                drop_all_pm: 0,
                init_max: 5,
            };
            let mut h = gen_vec_history(&mut rng, &g);
            // subscribers live as long as the vector (a stream that has kept up for tens of thousands of messages)
            h.ops.retain(|o| !matches!(o, crate::engine_vec::HOp::DropSub(_) | crate::engine_vec::HOp::DropAll));
            out.ev.add("marathon_operations", h.ops.len() as u64);
            judge_vec(prop, &h, case, out, &|f: &Facts| f.msgs >= 1000);
        } else {
            let g = AGen {
                caps: &[4, 16, 64],
                maxlen: if i % 4 == 0 { 80 } else { 12 },
                vmax: 14,
                // (one in four: more than 2^16 diffs through one adapter object)
                min_ops: if i % 2 == 0 { 140_000 } else { 20_000 },
                max_ops: if i % 2 == 0 { 220_000 } else { 35_000 },
                txn_pct: 15,
                param_pct: 10,
                poll_pct: 35,
                close_pm: 0,
                drop_pm: 0,
                trav: true,
                init_max: 6,
                lazy_only: false,
                far_runs: false,
            };
            let long = i % 2 == 0;
            let (chain, batched): (Vec<Stage>, bool) = if long {
                // more than 2^16 diffs through ONE adapter object of a known kind (plain stream first)
                use crate::engine_adp::{Kind, PK};
                // ten slots per round of twenty: Tail three times (limits 2, 4 and a random one: the smallest views
                // make the most multi-diff bursts), Skip twice, Head, Filter twice, Sort twice
                let slot = (i / 2) % 10;
                let lim = rng.range(1, 7);
                let st = match slot {
                    0 => Stage::Lim { kind: Kind::Tail, pk: PK::Static, n: 2, queue: false },
                    5 => Stage::Lim { kind: Kind::Tail, pk: PK::Static, n: 4, queue: false },
                    7 => Stage::Lim { kind: Kind::Tail, pk: PK::Static, n: lim, queue: false },
                    1 | 6 => Stage::Lim { kind: Kind::Skip, pk: PK::DynInit, n: lim, queue: true },
                    2 => Stage::Lim { kind: Kind::Head, pk: PK::Static, n: lim, queue: false },
                    3 | 8 => Stage::Filter(0b0110),
                    _ => Stage::SortByKey,
                };
                (vec![st], (i / 20) % 2 == 1)
            } else {
                let nst = rng.range(1, 2);
                let chain = (0..nst)
                    .map(|_| loop {
                        let s = gen_stage(&mut rng, ALL_PKS, 6);
                        // (the known findings F4 / F6 end or resynchronise a history; a marathon wants to run on)
                        if !(s.is_tail() && s.dynamic()) && !s.is_sort() {
                            break s;
                        }
                    })
                    .collect();
                (chain, rng.chance(1, 2))
            };
            let mut h = gen_adp_history(&mut rng, chain, batched, &g);
            if long && (i / 2) % 10 < 2 || long && (i / 2) % 10 == 5 {
                // a regular workload instead of a random one (a timeline: one bulk append, then a sliding window of
                // push_back / pop_front for tens of thousands of rounds): the adapter's buffers never see anything
                // but the same two or three burst shapes, however long it lives
                use crate::engine_adp::AOp;
                use crate::vops::VOp;
                let mut ops = vec![AOp::Src(VOp::Append(vec![1, 2, 3])), AOp::Poll(0)];
                let rounds = rng.range(36_000, 50_000);
                for r in 0..rounds {
                    ops.push(AOp::Src(VOp::PushBack((r % 13) as u32)));
                    if !h.eager && rng.chance(2, 3) {
                        ops.push(AOp::Poll(0));
                    }
                    ops.push(AOp::Src(VOp::PopFront));
                    if !h.eager && rng.chance(1, 3) {
                        ops.push(AOp::Poll(0));
                    }
                }
                h.ops = ops;
                out.ev.count("marathon_regular_sliding_window_workloads");
            }
            out.ev.add("marathon_operations", h.ops.len() as u64);
            let shown = h.show()[0].clone();
            if let Some(f) = judge_adp(prop, &h, &p.known, case, out, &|f: &AFacts| f.diffs_in >= 1000) {
                if std::env::var("MARATHON_DEBUG").is_ok() {
                    eprintln!("marathon {i}: {shown}: ops {} diffs_in {} diffs_out {} resets_in {}", h.ops.len(), f.diffs_in, f.diffs_out, f.resets_in);
                }
                if long {
                    out.ev.add("marathon_long_single_adapter_diffs_out", f.diffs_out);
                }
            }
        }
    })
}
