//! Property runners on top of the vector engine: C05 C06 C07 C08 C17 (and the plain-stream part of
//! C14/C20, which ride along in every history).

use serde_json::json;

use crate::{common::*, engine_vec::*, vops::*, Params};

// ---------------------------------------------------------------------------------------------
// alphabets for exhaustive enumeration

/// all direct mutator calls with all in-range indices (plus, if `oob`, indices beyond the end)
pub fn alphabet_direct(m: &[u32], vals: &[u32], maxlen: usize, oob: bool, entries: bool) -> Vec<VOp> {
    let len = m.len();
    let mut a = vec![VOp::Clear, VOp::PopFront, VOp::PopBack];
    if len < maxlen {
        a.push(VOp::Append(vec![]));
        a.push(VOp::Append(vec![vals[0]]));
        if len + 2 <= maxlen {
            a.push(VOp::Append(vec![vals[0], vals[vals.len() - 1]]));
        }
        for &v in vals {
            a.push(VOp::PushFront(v));
            a.push(VOp::PushBack(v));
            let hi = if oob { len + 2 } else { len };
            for i in 0..=hi {
                a.push(VOp::Insert(i, v));
            }
        }
    }
    let hi = if oob { len + 2 } else { len };
    for i in 0..hi {
        for &v in vals {
            a.push(VOp::Set(i, v));
        }
        a.push(VOp::Remove(i));
        if entries {
            a.push(VOp::EntrySet(i, vals[vals.len() - 1]));
            a.push(VOp::EntryRemove(i));
        }
    }
    if oob {
        a.push(VOp::EntryGet(len));
        a.push(VOp::EntryGet(len + 1));
        // indices and lengths at the edges of usize / isize
        for e in [usize::MAX, usize::MAX - 1, usize::MAX / 2 + 1] {
            a.push(VOp::Insert(e, vals[0]));
            a.push(VOp::Set(e, vals[0]));
            a.push(VOp::Remove(e));
            a.push(VOp::EntryGet(e));
            a.push(VOp::Truncate(e));
        }
    }
    for n in 0..=len + 1 {
        a.push(VOp::Truncate(n));
    }
    a
}

fn all_decs(len: usize, choices: &[Dec]) -> Vec<Vec<Dec>> {
    let mut out: Vec<Vec<Dec>> = vec![vec![]];
    for _ in 0..len {
        let mut next = vec![];
        for p in &out {
            for c in choices {
                let mut q = p.clone();
                q.push(c.clone());
                next.push(q);
            }
        }
        out = next;
    }
    out
}

/// DFS over operation sequences: `alpha(model)` gives the operations available in a state.
fn dfs(
    model: &mut Vec<u32>,
    prefix: &mut Vec<VOp>,
    depth: usize,
    alpha: &dyn Fn(&[u32]) -> Vec<VOp>,
    visit: &mut dyn FnMut(&[VOp]),
) {
    visit(prefix);
    if depth == 0 {
        return;
    }
    for op in alpha(model) {
        let saved = model.clone();
        apply_model(model, &op);
        prefix.push(op);
        dfs(model, prefix, depth - 1, alpha, visit);
        prefix.pop();
        *model = saved;
    }
}

/// Polling patterns used by the exhaustive sets: which subscriber is drained after which operation.
fn with_pattern(ops: &[VOp], pattern: usize, subs: &[bool]) -> Vec<HOp> {
    let mut h: Vec<HOp> = subs.iter().map(|b| HOp::Sub { batched: *b }).collect();
    for (k, op) in ops.iter().enumerate() {
        h.push(HOp::V(op.clone()));
        match pattern {
            // everybody after every operation
            0 => {
                for s in 0..subs.len() {
                    h.push(HOp::Poll { sub: s, max: 0 });
                }
            }
            // nobody until the end
            1 => {}
            // one item at a time for the first subscriber, the others only after the first op
            2 => {
                h.push(HOp::Poll { sub: 0, max: 1 });
                if k == 0 {
                    for s in 1..subs.len() {
                        h.push(HOp::Poll { sub: s, max: 0 });
                    }
                }
            }
            // alternate
            _ => h.push(HOp::Poll { sub: k % subs.len().max(1), max: 0 }),
        }
    }
    if pattern != 1 {
        // leave them pending before the final drop, so that the wake-by-drop rule is exercised
        for s in 0..subs.len() {
            h.push(HOp::Poll { sub: s, max: 0 });
        }
    }
    h
}

struct Root {
    init: Vec<u32>,
    cap: usize,
    pattern: usize,
    first: Option<VOp>,
}

fn exhaustive(
    prop: &str,
    p: &Params,
    inits: &[Vec<u32>],
    caps: &[usize],
    patterns: &[usize],
    subs: &[bool],
    depth: usize,
    alpha: &(dyn Fn(&[u32]) -> Vec<VOp> + Sync),
    nontrivial: &(dyn Fn(&Facts) -> bool + Sync),
    gen_name: &str,
) -> Outcome {
    let mut roots = vec![];
    for init in inits {
        for &cap in caps {
            for &pattern in patterns {
                roots.push(Root { init: init.clone(), cap, pattern, first: None });
                for op in alpha(init) {
                    roots.push(Root { init: init.clone(), cap, pattern, first: Some(op) });
                }
            }
        }
    }
    let n = roots.len() as u64;
    let run_root = |i: u64, out: &mut Outcome| {
        let r = &roots[i as usize];
        let mut model = r.init.clone();
        let mut prefix = vec![];
        let d = match &r.first {
            None => 0,
            Some(op) => {
                apply_model(&mut model, op);
                prefix.push(op.clone());
                depth - 1
            }
        };
        let mut leaf = 0u64;
        dfs(&mut model, &mut prefix, d, alpha, &mut |ops| {
            let h = VecHistory { capacity: r.cap, init: r.init.clone(), ops: with_pattern(ops, r.pattern, subs) };
            judge_vec(prop, &h, json!({"gen": gen_name, "case": i, "leaf": leaf}), out, nontrivial);
            leaf += 1;
        });
    };
    let mut out = p.cases(gen_name, n, run_root);
    out.ev.exhaustive_scopes.push(format!(
        "{gen_name}: every operation sequence of length <= {depth} from {} initial vector(s), capacities {caps:?}, {} polling pattern(s), subscribers {subs:?} (true = batched); {} roots",
        inits.len(),
        patterns.len(),
        n
    ));
    out
}

fn random(
    prop: &str,
    p: &Params,
    n: u64,
    g: &GenCfg,
    nontrivial: &(dyn Fn(&Facts) -> bool + Sync),
    gen_name: &str,
) -> Outcome {
    let seed = p.seed;
    let small = GenCfg { min_ops: g.min_ops.min(3), max_ops: g.max_ops.min(16), ..*g };
    let g = if p.san() { &small } else { g };
    let run = |i: u64, out: &mut Outcome| {
        let mut rng = Rng::new(mix(seed, mix(hash_of(&gen_name), i)));
        let h = gen_vec_history(&mut rng, g);
        judge_vec(prop, &h, json!({"gen": gen_name, "case": i, "seed": seed}), out, nontrivial);
    };
    p.cases(gen_name, n, run)
}

fn inits_upto(n: usize) -> Vec<Vec<u32>> {
    (0..=n).map(|k| (0..k as u32).map(|i| i % 2).collect()).collect()
}

// ---------------------------------------------------------------------------------------------

/// Subscribers that are turned into a stream late: every constructor x capacities 1,2,4 x 0..cap+3 updates
/// (direct calls and one transaction) between subscribe() and the first poll, then more traffic.
fn late_conversions(prop: &str, p: &Params, nt: &(dyn Fn(&Facts) -> bool + Sync)) -> Outcome {
    let gen_name = "late-conversion-exh";
    let caps = [1usize, 2, 4];
    let mut roots = vec![];
    for &cap in &caps {
        for batched in [false, true] {
            for values in [false, true] {
                for before in 0..=cap + 3 {
                    for shape in 0..3usize {
                        roots.push((cap, batched, values, before, shape));
                    }
                }
            }
        }
    }
    let mut out = p.cases(gen_name, roots.len() as u64, |ri, out| {
        let (cap, batched, values, before, shape) = roots[ri as usize];
        let mut ops = vec![HOp::SubLazy { batched, values }, HOp::Sub { batched: !batched }];
        for k in 0..before {
            ops.push(HOp::V(match (shape, k % 3) {
                (0, _) => VOp::PushBack(k as u32),
                (1, 0) => VOp::PushFront(k as u32),
                (1, 1) => VOp::Txn(vec![VOp::PushBack(7), VOp::PushBack(8)], TxEnd::Commit),
                (1, _) => VOp::PopFront,
                (_, 0) => VOp::PushBack(k as u32),
                (_, 1) => VOp::Set(0, 9),
                (_, _) => VOp::PopBack,
            }));
        }
        ops.push(HOp::Poll { sub: 0, max: 1 });
        ops.push(HOp::V(VOp::PushBack(5)));
        ops.push(HOp::Poll { sub: 0, max: 0 });
        ops.push(HOp::Poll { sub: 1, max: 0 });
        ops.push(HOp::V(VOp::Txn(vec![VOp::PushFront(6), VOp::PopBack], TxEnd::Commit)));
        let h = VecHistory { capacity: cap, init: vec![1, 2], ops };
        judge_vec(prop, &h, json!({"gen": gen_name, "case": ri}), out, nt);
    });
    out.ev.exhaustive_scopes.push(format!(
        "{gen_name}: into_stream / into_batched_stream / into_values_and_stream / into_values_and_batched_stream called only at the first poll x capacities {caps:?} x 0..capacity+3 updates of three shapes (pushes; front ops and a transaction; set/pop mix) between subscribe() and that poll"
    ));
    out
}

pub fn run_c05(p: &Params) -> Outcome {
    let nt = |f: &Facts| f.msgs >= 2 && f.ready >= 1 && f.pending >= 1;
    let depth = if p.thorough { 4 } else { 3 };
    let mut out = exhaustive(
        "C05",
        p,
        &inits_upto(3),
        &[16],
        &[0, 1, 2],
        &[false, true],
        depth,
        &|m| alphabet_direct(m, &[0, 1], 4, false, true),
        &nt,
        "c05-exh-direct",
    );
    // traversals and transactions, smaller alphabet
    let alpha2 = |m: &[u32]| -> Vec<VOp> {
        let mut a = vec![VOp::PushBack(1), VOp::PopFront, VOp::Clear];
        if !m.is_empty() {
            a.push(VOp::Set(m.len() - 1, 0));
            a.push(VOp::Truncate(m.len() - 1));
        }
        for d in all_decs(m.len().min(3), &[Dec::Keep, Dec::Set(1), Dec::Remove, Dec::SetRemove(0), Dec::SetSet(3, 4)]) {
            a.push(VOp::ForEach(d.clone()));
            a.push(VOp::Entries(d));
        }
        let body_ops = [VOp::PushBack(0), VOp::PushFront(1), VOp::PopBack, VOp::PopFront, VOp::Clear, VOp::Truncate(1), VOp::Insert(0, 1)];
        for b1 in &body_ops {
            a.push(VOp::Txn(vec![b1.clone()], TxEnd::Commit));
            for b2 in &body_ops {
                a.push(VOp::Txn(vec![b1.clone(), b2.clone()], TxEnd::Commit));
                if p.thorough {
                    for b3 in &body_ops {
                        a.push(VOp::Txn(vec![b1.clone(), b2.clone(), b3.clone()], TxEnd::Commit));
                    }
                }
            }
        }
        a
    };
    out.merge(exhaustive(
        "C05",
        p,
        &inits_upto(3),
        &[16],
        &[0, 2],
        &[false, true],
        2,
        &alpha2,
        &nt,
        "c05-exh-traversal-txn",
    ));
    let n = p.n(60_000, 600_000);
    let g = GenCfg {
        caps: &[16, 32, 64],
        min_ops: 20,
        max_ops: 200,
        maxlen: 12,
        vmax: 6,
        oob: false,
        trav: true,
        txn_pct: 15,
        max_subs: 4,
        poll_pct: 30,
        drop_vec_pct: 4,
        drop_all_pm: 0,
        init_max: 5,
    };
    out.merge(random("C05", p, n, &g, &nt, "c05-rand"));
    // large vectors (imbl chunks hold 64 elements)
    let big = GenCfg { maxlen: 160, init_max: 130, vmax: 500, max_ops: 60, max_subs: 10, ..g };
    out.merge(random("C05", p, p.n(4_000, 60_000), &big, &nt, "c05-rand-large"));
    // giant vectors: thousands of items, dozens of subscribers, capacities in the thousands
    let giant = GenCfg { caps: &[16, 4096], maxlen: 9500, init_max: 9000, vmax: 20_000, min_ops: 10, max_ops: 40, max_subs: 40, ..big };
    if !p.san() {
        out.merge(random("C05", p, p.n(150, 4_000), &giant, &nt, "c05-rand-giant"));
    }
    // thousands of messages waiting in a channel of thousands, transactions of thousands of diffs (small vectors)
    let scale = GenCfg { caps: &[2048, 4096, 8192], maxlen: 40, init_max: 30, vmax: 20_000, min_ops: 1100, max_ops: 3000, max_subs: 3, poll_pct: 1, txn_pct: 10, ..big };
    if !p.san() {
        out.merge(random("C05", p, p.n(100, 3_000), &scale, &nt, "c05-rand-scale"));
    }
    // long backlogs below the capacity: one batched poll collects dozens of messages
    let backlog = GenCfg { caps: &[64, 128, 256, 1024], min_ops: 60, max_ops: 400, poll_pct: 3, max_subs: 3, ..g };
    out.merge(random("C05", p, p.n(2_000, 40_000), &backlog, &nt, "c05-rand-backlog"));
    out.merge(late_conversions("C05", p, &nt));
    out
}

pub fn run_c06(p: &Params) -> Outcome {
    let nt = |f: &Facts| f.resets >= 1 || f.near_lag_polls >= 1;
    // exhaustive over {push_back, pop_front, txn(2), txn(pop,push), drain a, drain b, poll a once}
    let depth = if p.thorough { 8 } else { 6 };
    let caps: &[usize] = &[1, 2, 3];
    let alphabet = |_: &[u32]| -> Vec<HOp> {
        vec![
            HOp::V(VOp::PushBack(1)),
            HOp::V(VOp::PopFront),
            HOp::V(VOp::Txn(vec![VOp::PushBack(2), VOp::PushBack(3)], TxEnd::Commit)),
            HOp::V(VOp::Txn(vec![VOp::PopFront, VOp::PushFront(0)], TxEnd::Commit)),
            HOp::Poll { sub: 0, max: 0 },
            HOp::Poll { sub: 1, max: 0 },
            HOp::Poll { sub: 0, max: 1 },
        ]
    };
    let a = alphabet(&[]);
    let na = a.len() as u64;
    // roots: capacity x first two operations
    let mut roots: Vec<(usize, usize, usize)> = vec![];
    for &c in caps {
        for i in 0..a.len() {
            for j in 0..a.len() {
                roots.push((c, i, j));
            }
        }
    }
    let gen_name = "c06-exh";
    let run_root = |ri: u64, out: &mut Outcome| {
        let (cap, i, j) = roots[ri as usize];
        let rest = depth - 2;
        let total = na.pow(rest as u32);
        for code in 0..total {
            let mut ops = vec![HOp::Sub { batched: false }, HOp::Sub { batched: true }, a[i].clone(), a[j].clone()];
            let mut c = code;
            for _ in 0..rest {
                ops.push(a[(c % na) as usize].clone());
                c /= na;
            }
            let h = VecHistory { capacity: cap, init: vec![7], ops };
            judge_vec("C06", &h, json!({"gen": gen_name, "case": ri, "leaf": code}), out, &nt);
        }
    };
    let mut out = p.cases(gen_name, roots.len() as u64, run_root);
    out.ev.exhaustive_scopes.push(format!(
        "{gen_name}: all sequences of exactly {depth} steps over {{push_back, pop_front, txn(push,push), txn(pop_front,push_front), drain(plain), drain(batched), poll-one(plain)}} for capacities {caps:?}, one plain and one batched subscriber (shorter sequences are prefixes: every monitor runs after every step)"
    ));
    let n = p.n(80_000, 1_000_000);
    let g = GenCfg {
        caps: &[1, 2, 3, 4, 5, 6, 7, 8, 9, 15, 16, 17, 31, 33, 1000],
        min_ops: 20,
        max_ops: 160,
        maxlen: 10,
        vmax: 6,
        oob: false,
        trav: true,
        txn_pct: 20,
        max_subs: 4,
        poll_pct: 12,
        drop_vec_pct: 3,
        drop_all_pm: 0,
        init_max: 5,
    };
    out.merge(random("C06", p, n, &g, &nt, "c06-rand"));
    let big = GenCfg { maxlen: 160, init_max: 130, vmax: 500, max_ops: 60, max_subs: 10, ..g };
    out.merge(random("C06", p, p.n(4_000, 60_000), &big, &nt, "c06-rand-large"));
    // giant vectors: thousands of items, dozens of subscribers, capacities in the thousands
    let giant = GenCfg { caps: &[16, 4096], maxlen: 9500, init_max: 9000, vmax: 20_000, min_ops: 10, max_ops: 40, max_subs: 40, ..big };
    if !p.san() {
        out.merge(random("C06", p, p.n(150, 4_000), &giant, &nt, "c06-rand-giant"));
    }
    // thousands of messages waiting in a channel of thousands, transactions of thousands of diffs (small vectors)
    let scale = GenCfg { caps: &[2048, 4096, 8192], maxlen: 40, init_max: 30, vmax: 20_000, min_ops: 1100, max_ops: 3000, max_subs: 3, poll_pct: 1, txn_pct: 10, ..big };
    if !p.san() {
        out.merge(random("C06", p, p.n(100, 3_000), &scale, &nt, "c06-rand-scale"));
    }
    // big channels with long backlogs: hundreds of undelivered messages around capacities 32..256
    let backlog = GenCfg { caps: &[31, 32, 33, 63, 64, 65, 100, 128, 256], min_ops: 120, max_ops: 700, poll_pct: 2, max_subs: 3, ..g };
    out.merge(random("C06", p, p.n(1_500, 30_000), &backlog, &nt, "c06-rand-backlog"));
    out.merge(late_conversions("C06", p, &nt));
    if out.violations.is_empty() && out.ev.get("resets_delivered") == 0 {
        out.inconclusive.push("no Reset was delivered in the whole run".into());
    }
    out
}

pub fn run_c07(p: &Params) -> Outcome {
    let nt = |f: &Facts| f.txn_commit + f.txn_abandon >= 1;
    // every body of length <= 3 over the body alphabet, every way of ending it; bodies being closed
    // under prefixes, this is "every prefix at which it may be abandoned".
    let body_alpha = |m: &[u32]| -> Vec<VOp> {
        let len = m.len();
        let mut a = vec![
            VOp::Append(vec![5, 6]),
            VOp::Append(vec![]),
            VOp::Clear,
            VOp::PushFront(3),
            VOp::PushBack(4),
            VOp::PopFront,
            VOp::PopBack,
            VOp::Insert(len / 2, 2),
            VOp::Truncate(1),
            VOp::Truncate(len + 1),
            VOp::Insert(len + 1, 9), // out of range: panics, records nothing
        ];
        if len > 0 {
            a.push(VOp::Set(len - 1, 8));
            a.push(VOp::Remove(0));
            a.push(VOp::EntrySet(0, 1));
            a.push(VOp::EntryRemove(len - 1));
            a.push(VOp::ForEach(vec![Dec::Remove, Dec::Set(7)]));
        }
        a
    };
    let ends = [
        TxEnd::Commit,
        TxEnd::Drop,
        TxEnd::RollbackDrop,
        TxEnd::RollbackThen(vec![], true),
        TxEnd::RollbackThen(vec![VOp::PushBack(1)], true),
        TxEnd::RollbackThen(vec![VOp::PopFront, VOp::PushBack(1)], false),
    ];
    let depth = if p.thorough { 4 } else { 3 };
    // roots: init x capacity x subscriber set x first body op
    struct R {
        init: Vec<u32>,
        cap: usize,
        subs: Vec<bool>,
        first: Option<VOp>,
    }
    let mut roots = vec![];
    for init in [vec![], vec![1], vec![1, 2], vec![1, 2, 3]] {
        for cap in [1usize, 2, 16] {
            for subs in [vec![], vec![false], vec![true, false, true]] {
                roots.push(R { init: init.clone(), cap, subs: subs.clone(), first: None });
                for op in body_alpha(&init) {
                    roots.push(R { init: init.clone(), cap, subs: subs.clone(), first: Some(op) });
                }
            }
        }
    }
    let gen_name = "c07-exh";
    let run_root = |ri: u64, out: &mut Outcome| {
        let r = &roots[ri as usize];
        let mut model = r.init.clone();
        let mut prefix = vec![];
        let d = match &r.first {
            None => 0,
            Some(op) => {
                model_op(&mut model, op);
                prefix.push(op.clone());
                depth - 1
            }
        };
        let mut leaf = 0u64;
        dfs(&mut model, &mut prefix, d, &body_alpha, &mut |body| {
            for (e, end) in ends.iter().enumerate() {
                for variant in 0..2 {
                    let mut ops: Vec<HOp> = r.subs.iter().map(|b| HOp::Sub { batched: *b }).collect();
                    if variant == 1 {
                        // subscribers are pending when the transaction runs; a direct op before it
                        ops.push(HOp::V(VOp::PushBack(9)));
                        for s in 0..r.subs.len() {
                            ops.push(HOp::Poll { sub: s, max: 0 });
                        }
                    }
                    ops.push(HOp::V(VOp::Txn(body.to_vec(), end.clone())));
                    if variant == 1 {
                        ops.push(HOp::V(VOp::PushFront(0)));
                    }
                    for s in 0..r.subs.len() {
                        ops.push(HOp::Poll { sub: s, max: if s == 1 { 1 } else { 0 } });
                    }
                    let h = VecHistory { capacity: r.cap, init: r.init.clone(), ops };
                    judge_vec("C07", &h, json!({"gen": gen_name, "case": ri, "leaf": leaf, "end": e, "variant": variant}), out, &nt);
                }
            }
            leaf += 1;
        });
    };
    let mut out = p.cases(gen_name, roots.len() as u64, run_root);
    out.ev.exhaustive_scopes.push(format!(
        "{gen_name}: every transaction body of length <= {depth} over 11-16 body operations (all eleven mutators, entry ops, for_each, an out-of-range insert) from 4 initial vectors x capacities [1,2,16] x subscriber sets [none, one plain, batched+plain+batched] x 6 endings (commit, drop, rollback+drop, rollback+commit, rollback+more+commit, rollback+more+drop) x 2 surroundings; {} roots",
        roots.len()
    ));
    let n = p.n(60_000, 600_000);
    let g = GenCfg {
        caps: &[1, 2, 3, 16],
        min_ops: 10,
        max_ops: 80,
        maxlen: 10,
        vmax: 6,
        oob: true,
        trav: true,
        txn_pct: 60,
        max_subs: 3,
        poll_pct: 25,
        drop_vec_pct: 3,
        drop_all_pm: 15,
        init_max: 5,
    };
    out.merge(random("C07", p, n, &g, &nt, "c07-rand"));
    // large vectors (traversals inside a transaction record one diff per element) and large channels
    let big = GenCfg { maxlen: 160, init_max: 130, vmax: 500, max_ops: 40, caps: &[1, 16, 64, 256], oob: false, ..g };
    out.merge(random("C07", p, p.n(3_000, 40_000), &big, &nt, "c07-rand-large"));
    // giant vectors: thousands of items, dozens of subscribers, capacities in the thousands
    let giant = GenCfg { caps: &[16, 4096], maxlen: 9500, init_max: 9000, vmax: 20_000, min_ops: 10, max_ops: 40, max_subs: 40, ..big };
    if !p.san() {
        out.merge(random("C07", p, p.n(150, 4_000), &giant, &nt, "c07-rand-giant"));
    }
    // thousands of messages waiting in a channel of thousands, transactions of thousands of diffs (small vectors)
    let scale = GenCfg { caps: &[2048, 4096, 8192], maxlen: 40, init_max: 30, vmax: 20_000, min_ops: 1100, max_ops: 3000, max_subs: 3, poll_pct: 1, txn_pct: 10, ..big };
    if !p.san() {
        out.merge(random("C07", p, p.n(100, 3_000), &scale, &nt, "c07-rand-scale"));
    }
    out
}

pub fn run_c08(p: &Params) -> Outcome {
    let nt = |f: &Facts| f.ended >= 1 && (f.ended_behind + f.ended_midbatch + f.woken_by_drop + f.ended_lagged) >= 1;
    // structured situations x short operation sequences
    let seq_alpha = |m: &[u32]| -> Vec<VOp> {
        let mut a = vec![VOp::PushBack(1), VOp::PushFront(2), VOp::PopFront, VOp::Clear, VOp::Append(vec![3, 4])];
        if !m.is_empty() {
            a.push(VOp::Set(0, 5));
        }
        a.push(VOp::Txn(vec![VOp::PushBack(6), VOp::PushBack(7), VOp::PopFront], TxEnd::Commit));
        a
    };
    let depth = if p.thorough { 4 } else { 3 };
    let caps = [1usize, 2, 4, 16];
    let mut roots = vec![];
    for &cap in &caps {
        for batched in [false, true] {
            for situation in 0..8usize {
                roots.push((cap, batched, situation));
            }
        }
    }
    let gen_name = "c08-exh";
    let run_root = |ri: u64, out: &mut Outcome| {
        let (cap, batched, situation) = roots[ri as usize];
        let mut model = vec![1u32, 2];
        let mut prefix = vec![];
        let mut leaf = 0u64;
        dfs(&mut model, &mut prefix, depth, &seq_alpha, &mut |seq| {
            let mut ops = vec![HOp::Sub { batched }];
            match situation {
                // up to date and Pending when the vector goes away
                0 => {
                    ops.extend(seq.iter().cloned().map(HOp::V));
                    ops.push(HOp::Poll { sub: 0, max: 0 });
                }
                // never polled at all
                1 => ops.extend(seq.iter().cloned().map(HOp::V)),
                // behind within the capacity
                2 => {
                    ops.extend(seq.iter().cloned().map(HOp::V));
                    ops.push(HOp::Poll { sub: 0, max: 0 });
                    ops.push(HOp::V(VOp::PushBack(8)));
                }
                // behind beyond the capacity (lag)
                3 => {
                    ops.push(HOp::Poll { sub: 0, max: 0 });
                    ops.extend(seq.iter().cloned().map(HOp::V));
                    for k in 0..cap + 2 {
                        ops.push(HOp::V(VOp::PushBack(10 + k as u32)));
                    }
                }
                // in the middle of a multi-diff message
                4 => {
                    ops.extend(seq.iter().cloned().map(HOp::V));
                    ops.push(HOp::Poll { sub: 0, max: 0 });
                    ops.push(HOp::V(VOp::Txn(vec![VOp::PushBack(6), VOp::PushFront(7), VOp::PopBack], TxEnd::Commit)));
                    ops.push(HOp::Poll { sub: 0, max: 1 });
                }
                // lagged, and the vector is empty when it goes away (direct clear / clear in a transaction)
                6 | 7 => {
                    ops.push(HOp::Poll { sub: 0, max: 0 });
                    ops.extend(seq.iter().cloned().map(HOp::V));
                    for k in 0..cap + 2 {
                        ops.push(HOp::V(VOp::PushBack(10 + k as u32)));
                    }
                    if situation == 6 {
                        ops.push(HOp::V(VOp::Clear));
                    } else {
                        ops.push(HOp::V(VOp::Txn(vec![VOp::PushBack(9), VOp::Clear], TxEnd::Commit)));
                    }
                }
                // lagged, last message is a transaction, polled once after the drop only
                _ => {
                    ops.extend(seq.iter().cloned().map(HOp::V));
                    for k in 0..cap + 1 {
                        ops.push(HOp::V(VOp::PushBack(20 + k as u32)));
                    }
                    ops.push(HOp::V(VOp::Txn(vec![VOp::PopFront, VOp::PushBack(6)], TxEnd::Commit)));
                }
            }
            ops.push(if leaf % 3 == 2 { HOp::DropVecIntoInner } else { HOp::DropVec });
            let h = VecHistory { capacity: cap, init: vec![1, 2], ops };
            judge_vec("C08", &h, json!({"gen": gen_name, "case": ri, "leaf": leaf}), out, &nt);
            leaf += 1;
        });
    };
    let mut out = p.cases(gen_name, roots.len() as u64, run_root);
    out.ev.exhaustive_scopes.push(format!(
        "{gen_name}: 8 subscriber situations (pending, never polled, behind within capacity, lagged, mid-batch, lagged onto a transaction, lagged with an empty final state x2) x capacities {caps:?} x both stream flavours x every operation sequence of length <= {depth} over 6-7 operations, then drop of the vector and drain"
    ));
    let n = p.n(60_000, 600_000);
    let g = GenCfg {
        caps: &[1, 2, 4, 16],
        min_ops: 3,
        max_ops: 60,
        maxlen: 10,
        vmax: 6,
        oob: false,
        trav: true,
        txn_pct: 25,
        max_subs: 4,
        poll_pct: 20,
        drop_vec_pct: 40,
        drop_all_pm: 0,
        init_max: 5,
    };
    out.merge(random("C08", p, n, &g, &nt, "c08-rand"));
    out
}

pub fn run_c17(p: &Params) -> Outcome {
    let nt = |f: &Facts| f.panics >= 1 || f.traversal_mutations >= 1 || f.noop_calls >= 1;
    let depth = if p.thorough { 3 } else { 2 };
    // all mutators with all indices 0..len+2, directly
    let mut out = exhaustive(
        "C17",
        p,
        &inits_upto(3),
        &[4],
        &[0],
        &[false],
        depth,
        &|m| alphabet_direct(m, &[0, 1], 5, true, true),
        &nt,
        "c17-exh-direct",
    );
    // the same inside a transaction (committed and dropped)
    let in_txn = |m: &[u32]| -> Vec<VOp> {
        let a = alphabet_direct(m, &[0, 1], 5, true, true);
        let mut out = vec![];
        for x in &a {
            out.push(VOp::Txn(vec![x.clone()], TxEnd::Commit));
            let mut w = m.to_vec();
            model_op(&mut w, x);
            for y in alphabet_direct(&w, &[1], 5, true, true) {
                out.push(VOp::Txn(vec![x.clone(), y], TxEnd::Commit));
            }
        }
        out
    };
    out.merge(exhaustive("C17", p, &inits_upto(3), &[4], &[0], &[true], 1, &in_txn, &nt, "c17-exh-txn"));
    // transactions during which every receiver goes away (the library records diffs only while somebody
    // listens): all bodies of length <= 5 over {clear, push_back, pop_back, insert(0), truncate(1),
    // [drop all subscribers]}, committed or dropped; contents and return values must still be a plain vector's
    let rl_ops = [VOp::Clear, VOp::PushBack(7), VOp::PopBack, VOp::Insert(0, 8), VOp::Truncate(1), VOp::DropSubs];
    let rl_depth = if p.thorough { 6 } else { 5 };
    let mut bodies: Vec<Vec<VOp>> = vec![vec![]];
    let mut frontier: Vec<Vec<VOp>> = vec![vec![]];
    for _ in 0..rl_depth {
        let mut next = vec![];
        for b in &frontier {
            for o in &rl_ops {
                let mut c = b.clone();
                c.push(o.clone());
                next.push(c);
            }
        }
        bodies.extend(next.iter().cloned());
        frontier = next;
    }
    let gen_rl = "c17-exh-receiverless-txn";
    let mut rl = p.cases(gen_rl, bodies.len() as u64, |i, out| {
        let body = &bodies[i as usize];
        for init in [vec![], vec![1u32, 2]] {
            for end in [TxEnd::Commit, TxEnd::Drop] {
                let ops = vec![
                    HOp::Sub { batched: false },
                    HOp::V(VOp::Txn(body.clone(), end.clone())),
                    HOp::V(VOp::PopBack),
                    HOp::Sub { batched: true },
                    HOp::V(VOp::PushBack(3)),
                    HOp::Poll { sub: 1, max: 0 },
                ];
                let h = VecHistory { capacity: 4, init: init.clone(), ops };
                judge_vec("C17", &h, json!({"gen": gen_rl, "case": i}), out, &nt);
            }
        }
    });
    rl.ev.exhaustive_scopes.push(format!(
        "{gen_rl}: every transaction body of length <= {rl_depth} over {{clear, push_back, pop_back, insert(0), truncate(1), drop-all-subscribers}} x 2 initial vectors x {{commit, drop}}, with a subscriber present at the start"
    ));
    out.merge(rl);
    // traversal: all decision sequences over {keep,set,remove,set-then-remove,stop} for length <= 5
    let maxlen = if p.thorough { 6 } else { 5 };
    let trav = move |m: &[u32]| -> Vec<VOp> {
        let mut a = vec![];
        for d in all_decs(m.len(), &[Dec::Keep, Dec::Set(9), Dec::Remove, Dec::SetRemove(8), Dec::SetSet(6, 7), Dec::Stop]) {
            a.push(VOp::Entries(d.clone()));
            a.push(VOp::Txn(vec![VOp::Entries(d.clone())], TxEnd::Commit));
            if !d.contains(&Dec::Stop) {
                a.push(VOp::ForEach(d.clone()));
                a.push(VOp::Txn(vec![VOp::ForEach(d)], TxEnd::Commit));
            }
        }
        a
    };
    let inits: Vec<Vec<u32>> = (0..=maxlen).map(|k| (0..k as u32).collect()).collect();
    out.merge(exhaustive("C17", p, &inits, &[64], &[0, 1], &[false], 1, &trav, &nt, "c17-exh-traversal"));
    let n = p.n(30_000, 400_000);
    let g = GenCfg {
        caps: &[8, 16],
        min_ops: 20,
        max_ops: 120,
        maxlen: 9,
        vmax: 5,
        oob: true,
        trav: true,
        txn_pct: 25,
        max_subs: 2,
        poll_pct: 20,
        drop_vec_pct: 2,
        drop_all_pm: 15,
        init_max: 5,
    };
    out.merge(random("C17", p, n, &g, &nt, "c17-rand"));
    let big = GenCfg { maxlen: 160, init_max: 130, vmax: 500, max_ops: 60, max_subs: 10, ..g };
    out.merge(random("C17", p, p.n(3_000, 40_000), &big, &nt, "c17-rand-large"));
    // giant vectors: thousands of items, dozens of subscribers, capacities in the thousands
    let giant = GenCfg { caps: &[16, 4096], maxlen: 9500, init_max: 9000, vmax: 20_000, min_ops: 10, max_ops: 40, max_subs: 40, ..big };
    if !p.san() {
        out.merge(random("C17", p, p.n(150, 4_000), &giant, &nt, "c17-rand-giant"));
    }
    // thousands of messages waiting in a channel of thousands, transactions of thousands of diffs (small vectors)
    let scale = GenCfg { caps: &[2048, 4096, 8192], maxlen: 40, init_max: 30, vmax: 20_000, min_ops: 1100, max_ops: 3000, max_subs: 3, poll_pct: 1, txn_pct: 10, ..big };
    if !p.san() {
        out.merge(random("C17", p, p.n(100, 3_000), &scale, &nt, "c17-rand-scale"));
    }
    out
}
