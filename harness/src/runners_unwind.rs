//! Unwinding histories (C20; C07 for transactions abandoned by a panic; C01/C16 for observables after a panic
//! of the value's `Clone`, which poisons nothing): a user-supplied closure or trait
//! impl of the element type (`Clone`, `PartialEq`, `Ord`, `Hash`) panics in the middle of a library call, the
//! caller catches the panic, goes on using the objects and finally drops everything. The verdict is the drop
//! accounting of the `Tracked` table (no double drop, no use after drop, nothing alive at the end) - under Miri
//! and ASan the same histories give the memory-level verdict. Nothing else is judged after the panic: a user
//! callback that panics is outside what the value/view properties quantify over (std's `RwLock` is poisoned by
//! it, for instance), except that a transaction that is dropped *by* the unwinding is an abandoned transaction.

use std::{
    panic::{catch_unwind, AssertUnwindSafe},
    pin::Pin,
    task::{Context, Poll},
};

use eyeball::{AsyncLock, Observable, ObservableWriteGuard, SharedObservable, Subscriber};
use eyeball_im::{ObservableVector, VectorDiff};
use eyeball_im_util::vector::VectorObserverExt;
use futures_core::Stream;
use imbl::Vector;
use serde_json::json;

use crate::{common::*, Params};

fn quiet<R>(f: impl FnOnce() -> R) -> Option<R> {
    catch_unwind(AssertUnwindSafe(f)).ok()
}

fn poll_stream<S: Stream + Unpin>(s: &mut S, max: usize) -> usize {
    let mut n = 0;
    for _ in 0..max {
        let (_f, w) = flag_waker();
        let mut cx = Context::from_waker(&w);
        match Pin::new(&mut *s).poll_next(&mut cx) {
            Poll::Ready(Some(_)) => n += 1,
            _ => break,
        }
    }
    n
}

// ---------------------------------------------------------------------------------------------
// observables

/// what panics
#[derive(Clone, Copy, Debug)]
enum OSite {
    /// `update`: closure panics before touching the value
    UpdateEarly,
    /// `update`: closure replaces the value (old one dropped), then panics
    UpdateAfterStore,
    /// `update`: closure moves the value out with `mem::replace`, keeps it in a local, then panics
    UpdateAfterTake,
    UpdateIfAfterStore,
    /// the same three through a write guard that is alive while unwinding
    GuardUpdateAfterStore,
    GuardSetThenPanic,
    /// `set_if_not_eq` with a panicking `PartialEq`, `set_if_hash_not_eq` with a panicking `Hash`
    EqPanics,
    HashPanics(u32),
    /// `Clone` panics inside `get()` / a subscriber's `next_now()` / a stream item
    CloneInGet,
    CloneInNextNow,
    CloneInPoll,
}

const OSITES: &[OSite] = &[
    OSite::UpdateEarly,
    OSite::UpdateAfterStore,
    OSite::UpdateAfterTake,
    OSite::UpdateIfAfterStore,
    OSite::GuardUpdateAfterStore,
    OSite::GuardSetThenPanic,
    OSite::EqPanics,
    OSite::HashPanics(0),
    OSite::HashPanics(1),
    OSite::CloneInGet,
    OSite::CloneInNextNow,
    OSite::CloneInPoll,
];

macro_rules! obs_case {
    ($name:ident, $asyncfl:tt, $S:ty, $U:ty, $Sub:ty, $new_s:expr, $new_u:expr,
     $await_:ident) => {
        fn $name(rng: &mut Rng, log: &mut Vec<String>, ev: &mut Ev) -> Vec<(&'static str, String)> {
            let mut complaint: Option<String> = None;
            let mut complaints: Vec<(&'static str, String)> = vec![];
            let strict_tag: &'static str = if $asyncfl { "C16" } else { "C01" };
            let mut strict_end = false;
            let site = *rng.pick(OSITES);
            let shared = rng.chance(2, 3);
            log.push(format!("{} {} site {:?}", if $asyncfl { "async" } else { "sync" }, if shared { "shared" } else { "unique" }, site));
            let mut handles: Vec<$S> = vec![];
            let mut unique: Option<$U> = None;
            let mut subs: Vec<$Sub> = vec![];
            if shared {
                handles.push($new_s(Tracked::new(0)));
                for _ in 0..rng.below(3) {
                    handles.push(handles[0].clone());
                }
                for _ in 0..rng.below(4) {
                    let h = &handles[rng.below(handles.len())];
                    subs.push(if rng.chance(1, 2) { $await_!(h.subscribe()) } else { h.subscribe_reset() });
                }
            } else {
                let u = $new_u(Tracked::new(0));
                for _ in 0..rng.below(4) {
                    subs.push(obs_case!(@usub $asyncfl, u));
                }
                unique = Some(u);
            }
            // prefix of ordinary traffic
            for k in 0..rng.below(4) {
                let v = Tracked::new(10 + k as u32);
                if let Some(u) = &mut unique {
                    drop(obs_case!(@uset $asyncfl, u, v));
                } else {
                    let h = &handles[rng.below(handles.len())];
                    drop($await_!(h.set(v)));
                }
                for s in subs.iter_mut() {
                    if rng.chance(1, 2) {
                        poll_stream(s, 1);
                    }
                }
            }
            // the panicking call
            let fired = quiet(|| match site {
                OSite::UpdateEarly | OSite::UpdateAfterStore | OSite::UpdateAfterTake | OSite::UpdateIfAfterStore => {
                    let body = |x: &mut Tracked| {
                        match site {
                            OSite::UpdateEarly => {}
                            OSite::UpdateAfterTake => {
                                let _old = std::mem::replace(x, Tracked::new(77));
                                panic!("user closure panics while it owns the old value");
                            }
                            _ => *x = Tracked::new(78),
                        }
                        panic!("user closure panics");
                    };
                    if let Some(u) = &mut unique {
                        if matches!(site, OSite::UpdateIfAfterStore) {
                            obs_case!(@uupdate_if $asyncfl, u, |x: &mut Tracked| { body(x); #[allow(unreachable_code)] true });
                        } else {
                            obs_case!(@uupdate $asyncfl, u, body);
                        }
                    } else {
                        let h = &handles[0];
                        if matches!(site, OSite::UpdateIfAfterStore) {
                            $await_!(h.update_if(|x: &mut Tracked| { body(x); #[allow(unreachable_code)] true }));
                        } else {
                            $await_!(h.update(body));
                        }
                    }
                }
                OSite::GuardUpdateAfterStore | OSite::GuardSetThenPanic => {
                    if let Some(h) = handles.first() {
                        let mut g = $await_!(h.write());
                        if matches!(site, OSite::GuardSetThenPanic) {
                            let _prev = ObservableWriteGuard::set(&mut g, Tracked::new(79));
                            panic!("panic while a write guard and the previous value are alive");
                        } else {
                            ObservableWriteGuard::update(&mut g, |x| {
                                *x = Tracked::new(80);
                                panic!("user closure panics under a write guard");
                            });
                        }
                    }
                }
                OSite::EqPanics => {
                    arm(ARM_EQ, 0);
                    if let Some(u) = &mut unique {
                        drop(obs_case!(@uset_if_not_eq $asyncfl, u, Tracked::new(81)));
                    } else {
                        drop($await_!(handles[0].set_if_not_eq(Tracked::new(81))));
                    }
                }
                OSite::HashPanics(k) => {
                    arm(ARM_HASH, k);
                    if let Some(u) = &mut unique {
                        drop(obs_case!(@uset_if_hash_not_eq $asyncfl, u, Tracked::new(82)));
                    } else {
                        drop($await_!(handles[0].set_if_hash_not_eq(Tracked::new(82))));
                    }
                }
                OSite::CloneInGet => {
                    arm(ARM_CLONE, 0);
                    if let Some(u) = &unique {
                        drop(obs_case!(@uget $asyncfl, u));
                    } else {
                        drop($await_!(handles[0].get()));
                    }
                }
                OSite::CloneInNextNow => {
                    if let Some(s) = subs.first_mut() {
                        arm(ARM_CLONE, 0);
                        drop($await_!(s.next_now()));
                    }
                }
                OSite::CloneInPoll => {
                    if let Some(s) = subs.first_mut() {
                        s.reset();
                        arm(ARM_CLONE, 0);
                        poll_stream(s, 1);
                    }
                }
            })
            .is_none();
            disarm();
            ev.count(if fired { "unwind_obs_call_panicked" } else { "unwind_obs_call_did_not_panic" });
            // A panic inside `Clone` happens under a read lock at most: nothing is poisoned, so the observable and
            // its subscribers must go on working as C01/C03 say (async flavour: like the sync one, C16).
            if fired && matches!(site, OSite::CloneInGet | OSite::CloneInNextNow | OSite::CloneInPoll) {
                ev.count("unwind_obs_strict_scripts_after_a_clone_panic");
                let r = quiet(|| {
                    let v = Tracked::new(90);
                    if let Some(u) = &mut unique {
                        drop(obs_case!(@uset $asyncfl, u, v));
                    } else {
                        drop($await_!(handles[0].set(v)));
                    }
                });
                if r.is_none() {
                    complaint = Some(format!("after a panic of the value's Clone inside {site:?} was caught, an ordinary set() panics: {}", last_panic()));
                }
                for (i, s) in subs.iter_mut().enumerate() {
                    if complaint.is_some() {
                        break;
                    }
                    let mut seen: Vec<u32> = vec![];
                    let mut ended = false;
                    let mut pending = false;
                    let r = quiet(|| {
                        for _ in 0..3 {
                            let (_f, w) = flag_waker();
                            let mut cx = Context::from_waker(&w);
                            match Pin::new(&mut *s).poll_next(&mut cx) {
                                Poll::Ready(Some(t)) => seen.push(t.v),
                                Poll::Ready(None) => {
                                    ended = true;
                                    break;
                                }
                                Poll::Pending => {
                                    pending = true;
                                    break;
                                }
                            }
                        }
                    });
                    if r.is_none() {
                        complaint = Some(format!("after a panic of the value's Clone inside {site:?} was caught, polling subscriber {i} panics: {}", last_panic()));
                    } else if ended {
                        complaint = Some(format!("after a caught Clone panic ({site:?}) subscriber {i} reports the end although an owner is alive"));
                    } else if seen.last() != Some(&90) || !pending {
                        complaint = Some(format!("after a caught Clone panic ({site:?}) and set(90), subscriber {i} was handed {seen:?} (pending afterwards: {pending}); expected the value 90, then Pending"));
                    }
                }
                if let Some(c) = complaint.take() {
                    complaints.push((strict_tag, c));
                }
                // counts (C19): nothing was created or dropped by the panic
                if let Some(h) = handles.first() {
                    let got = (h.observable_count(), h.subscriber_count(), h.strong_count());
                    let want = (handles.len(), subs.len(), handles.len() + subs.len());
                    if got != want {
                        complaints.push(("C19", format!("after a caught Clone panic ({site:?}): (observable_count, subscriber_count, strong_count) = {got:?}, live = {want:?}")));
                    }
                } else if let Some(u) = &unique {
                    let got = Observable::subscriber_count(u);
                    if got != subs.len() {
                        complaints.push(("C19", format!("after a caught Clone panic ({site:?}): Observable::subscriber_count = {got}, live subscribers = {}", subs.len())));
                    }
                }
                strict_end = true;
            }
            // life goes on (sync flavour: the lock may be poisoned, every call may panic from now on)
            for k in 0..rng.below(4) {
                let ok = quiet(|| {
                    let v = Tracked::new(20 + k as u32);
                    if let Some(u) = &mut unique {
                        drop(obs_case!(@uset $asyncfl, u, v));
                    } else {
                        drop($await_!(handles[0].set(v)));
                    }
                })
                .is_some();
                ev.count(if ok { "unwind_obs_later_call_ok" } else { "unwind_obs_later_call_panicked" });
                for s in subs.iter_mut() {
                    if rng.chance(1, 2) {
                        let _ = quiet(|| poll_stream(s, 1));
                    }
                }
                if rng.chance(1, 3) && !subs.is_empty() {
                    let s = subs.swap_remove(rng.below(subs.len()));
                    let _ = quiet(move || drop(s));
                }
            }
            if !shared && rng.chance(1, 2) {
                if let Some(u) = unique.take() {
                    if let Some(s) = quiet(move || Observable::into_shared(u)) {
                        handles.push(s);
                    }
                }
            }
            if strict_end {
                // nothing is poisoned: once the owners are gone every subscriber ends (C03; async: C16)
                drop(std::mem::take(&mut handles));
                drop(unique.take());
                for (i, s) in subs.iter_mut().enumerate() {
                    let mut ended = false;
                    let r = quiet(|| {
                        for _ in 0..3 {
                            let (_f, w) = flag_waker();
                            let mut cx = Context::from_waker(&w);
                            if let Poll::Ready(None) = Pin::new(&mut *s).poll_next(&mut cx) {
                                ended = true;
                                break;
                            }
                        }
                    });
                    if r.is_none() || !ended {
                        complaints.push((if $asyncfl { "C16" } else { "C03" }, format!("after a caught Clone panic ({site:?}) and the drop of every owner, subscriber {i} does not report the end (panicked: {})", r.is_none())));
                        break;
                    }
                }
            }
            // everything goes away, in a random order, each drop on its own (a destructor may panic on a
            // poisoned lock: that must not leak or double-drop anything either)
            while !handles.is_empty() || !subs.is_empty() || unique.is_some() {
                match rng.below(3) {
                    0 if !handles.is_empty() => {
                        let h = handles.swap_remove(rng.below(handles.len()));
                        if quiet(move || drop(h)).is_none() {
                            ev.count("unwind_obs_destructor_panicked");
                        }
                    }
                    1 if !subs.is_empty() => {
                        let s = subs.swap_remove(rng.below(subs.len()));
                        let _ = quiet(move || drop(s));
                    }
                    _ => {
                        if let Some(u) = unique.take() {
                            if quiet(move || drop(u)).is_none() {
                                ev.count("unwind_obs_destructor_panicked");
                            }
                        }
                    }
                }
            }
            complaints
        }
    };
    (@usub false, $u:ident) => { Observable::subscribe(&$u) };
    (@usub true, $u:ident) => { Observable::subscribe_async(&$u) };
    (@uset false, $u:ident, $v:expr) => { Observable::set($u, $v) };
    (@uset true, $u:ident, $v:expr) => { bo(Observable::set_async($u, $v)) };
    (@uset_if_not_eq false, $u:ident, $v:expr) => { Observable::set_if_not_eq($u, $v) };
    (@uset_if_not_eq true, $u:ident, $v:expr) => { bo(Observable::set_if_not_eq_async($u, $v)) };
    (@uset_if_hash_not_eq false, $u:ident, $v:expr) => { Observable::set_if_hash_not_eq($u, $v) };
    (@uset_if_hash_not_eq true, $u:ident, $v:expr) => { bo(Observable::set_if_hash_not_eq_async($u, $v)) };
    (@uupdate false, $u:ident, $f:expr) => { Observable::update($u, $f) };
    (@uupdate true, $u:ident, $f:expr) => { bo(Observable::update_async($u, $f)) };
    (@uupdate_if false, $u:ident, $f:expr) => { Observable::update_if($u, $f) };
    (@uupdate_if true, $u:ident, $f:expr) => { bo(Observable::update_if_async($u, $f)) };
    (@uget false, $u:ident) => { Observable::get($u).clone() };
    (@uget true, $u:ident) => { Observable::get_async($u).clone() };
}

fn bo<F: std::future::Future>(f: F) -> F::Output {
    match block_on(f) {
        Ok(v) => v,
        Err(e) => panic!("async-lock flavour: {e}"),
    }
}
macro_rules! now {
    ($e:expr) => {
        $e
    };
}
macro_rules! awaited {
    ($e:expr) => {
        bo($e)
    };
}

obs_case!(obs_case_sync, false, SharedObservable<Tracked>, Observable<Tracked>, Subscriber<Tracked>, SharedObservable::new, Observable::new, now);
obs_case!(
    obs_case_async,
    true,
    SharedObservable<Tracked, AsyncLock>,
    Observable<Tracked, AsyncLock>,
    Subscriber<Tracked, AsyncLock>,
    SharedObservable::new_async,
    Observable::new_async,
    awaited
);

// ---------------------------------------------------------------------------------------------
// vectors

type Sub1 = eyeball_im::VectorSubscriberStream<Tracked>;
type SubB = eyeball_im::VectorSubscriberBatchedStream<Tracked>;

fn rand_vec(rng: &mut Rng, max: usize) -> Vector<Tracked> {
    (0..rng.below(max + 1)).map(|_| Tracked::new(rng.below(9) as u32)).collect()
}

fn vec_mutate(rng: &mut Rng, v: &mut ObservableVector<Tracked>, log: &mut Vec<String>) {
    let len = v.len();
    let x = rng.below(9) as u32;
    match rng.below(11) {
        0 => {
            log.push("append".into());
            v.append(rand_vec(rng, 3))
        }
        1 => {
            log.push("clear".into());
            v.clear()
        }
        2 => {
            log.push("push_front".into());
            v.push_front(Tracked::new(x))
        }
        3 | 4 => {
            log.push("push_back".into());
            v.push_back(Tracked::new(x))
        }
        5 => {
            log.push("pop_front".into());
            drop(v.pop_front())
        }
        6 => {
            log.push("pop_back".into());
            drop(v.pop_back())
        }
        7 => {
            let i = rng.below(len + 1);
            log.push(format!("insert({i})"));
            v.insert(i, Tracked::new(x))
        }
        8 if len > 0 => {
            let i = rng.below(len);
            log.push(format!("set({i})"));
            drop(v.set(i, Tracked::new(x)))
        }
        9 if len > 0 => {
            let i = rng.below(len);
            log.push(format!("remove({i})"));
            drop(v.remove(i))
        }
        _ => {
            let n = rng.below(len + 1);
            log.push(format!("truncate({n})"));
            v.truncate(n)
        }
    }
}

/// A subscriber stream with the replica built from its snapshot and everything it delivered.
struct Rep<S> {
    s: S,
    replica: Vec<Item>,
    ended: bool,
}

fn apply_all(r: &mut Vec<Item>, diffs: &[D]) -> Result<(), String> {
    for d in diffs {
        d.checked_apply(r)?;
    }
    Ok(())
}

/// poll up to `max` items; Err = an inapplicable diff or a panic inside poll_next; Ok(true) = the stream is
/// Pending (or has ended) now
fn drain1(r: &mut Rep<Sub1>, max: usize) -> Result<bool, String> {
    for _ in 0..max {
        let (_f, w) = flag_waker();
        let mut cx = Context::from_waker(&w);
        match quiet(|| Pin::new(&mut r.s).poll_next(&mut cx)) {
            None => return Err(format!("poll_next of a subscriber stream panicked: {}", last_panic())),
            Some(Poll::Ready(Some(d))) => apply_all(&mut r.replica, &[D::of(&d)])?,
            Some(Poll::Ready(None)) => {
                r.ended = true;
                return Ok(true);
            }
            Some(Poll::Pending) => return Ok(true),
        }
    }
    Ok(false)
}
fn drainb(r: &mut Rep<SubB>, max: usize) -> Result<bool, String> {
    for _ in 0..max {
        let (_f, w) = flag_waker();
        let mut cx = Context::from_waker(&w);
        match quiet(|| Pin::new(&mut r.s).poll_next(&mut cx)) {
            None => return Err(format!("poll_next of a batched subscriber stream panicked: {}", last_panic())),
            Some(Poll::Ready(Some(ds))) => {
                let ds: Vec<D> = ds.iter().map(D::of).collect();
                apply_all(&mut r.replica, &ds)?
            }
            Some(Poll::Ready(None)) => {
                r.ended = true;
                return Ok(true);
            }
            Some(Poll::Pending) => return Ok(true),
        }
    }
    Ok(false)
}

/// Complaints are (tags, text). Judged after a caught panic: what C05/C06/C08 say about subscribers of a vector
/// that is used normally again (replica == contents at Pending, every diff applicable, final state at the end)
/// and what C07 says about a transaction (abandoned by the unwinding: no trace; committed after one of its calls
/// panicked and was caught: pre-state + published batch == contents == what the handle showed).
fn vec_case(rng: &mut Rng, log: &mut Vec<String>, ev: &mut Ev, san: bool) -> (Vec<(&'static str, String)>, bool) {
    let mut complaints: Vec<(&'static str, String)> = vec![];
    // leaks are tolerated when `Clone` panicked somewhere inside imbl (its inline representation leaks the
    // elements cloned so far when a clone panics - a matter of that dependency); double drops never are
    let mut leak_tolerant = false;
    let mut judge = true;
    let cap = *rng.pick(&[1usize, 2, 4, 16, 64]);
    let mut v: ObservableVector<Tracked> = ObservableVector::with_capacity(cap);
    let init = if rng.chance(1, 3) { rng.range(7, if san { 24 } else { 90 }) } else { 6 };
    v.append(rand_vec(rng, init));
    let mut s1: Vec<Rep<Sub1>> = vec![];
    let mut sb: Vec<Rep<SubB>> = vec![];
    for _ in 0..rng.below(3) {
        let (vals, s) = v.subscribe().into_values_and_stream();
        s1.push(Rep { s, replica: items_of(vals.iter()), ended: false });
    }
    for _ in 0..rng.range(1, 2) {
        let (vals, s) = v.subscribe().into_values_and_batched_stream();
        sb.push(Rep { s, replica: items_of(vals.iter()), ended: false });
    }
    log.push(format!("capacity {cap}, {} items, {} + {} subscribers", v.len(), s1.len(), sb.len()));
    macro_rules! partial_polls {
        () => {
            for r in s1.iter_mut() {
                if rng.chance(1, 3) {
                    if let Err(e) = drain1(r, rng.range(1, 3)) {
                        complaints.push(("C05|C06", e));
                    }
                }
            }
            for r in sb.iter_mut() {
                if rng.chance(1, 3) {
                    if let Err(e) = drainb(r, 1) {
                        complaints.push(("C05|C06", e));
                    }
                }
            }
        };
    }
    macro_rules! quiescent_check {
        ($when:expr) => {
            let contents = items_of(v.iter());
            for (i, r) in s1.iter_mut().enumerate() {
                match drain1(r, 100_000) {
                    Err(e) => complaints.push(("C05|C06", format!("{}: subscriber {i}: {e}", $when))),
                    Ok(_) if r.ended => complaints.push(("C08", format!("{}: subscriber {i} ended although the vector is alive", $when))),
                    Ok(_) if vals(&r.replica) != vals(&contents) => complaints.push((
                        "C05|C06",
                        format!("{}: subscriber {i} is Pending with replica {:?}, the contents are {:?}", $when, vals(&r.replica), vals(&contents)),
                    )),
                    Ok(_) => {}
                }
            }
            for (i, r) in sb.iter_mut().enumerate() {
                match drainb(r, 100_000) {
                    Err(e) => complaints.push(("C05|C06", format!("{}: batched subscriber {i}: {e}", $when))),
                    Ok(_) if r.ended => complaints.push(("C08", format!("{}: batched subscriber {i} ended although the vector is alive", $when))),
                    Ok(_) if vals(&r.replica) != vals(&contents) => complaints.push((
                        "C05|C06",
                        format!("{}: batched subscriber {i} is Pending with replica {:?}, the contents are {:?}", $when, vals(&r.replica), vals(&contents)),
                    )),
                    Ok(_) => {}
                }
            }
            ev.count("unwind_vector_quiescent_checks_after_a_caught_panic");
        };
    }
    // has the vector ever had more than one imbl chunk? (it keeps its tree representation when it shrinks)
    let mut ever_big = v.len() > 56;
    for _ in 0..rng.below(5) {
        vec_mutate(rng, &mut v, log);
        ever_big |= v.len() > 56;
        partial_polls!();
    }
    let site = rng.below(9);
    match site {
        0 | 1 => {
            // for_each: some entries are set / removed, then the closure panics
            let stop_at = rng.below(v.len() + 1);
            let decisions: Vec<usize> = (0..v.len()).map(|_| rng.below(3)).collect();
            log.push(format!("for_each, decisions {:?}, closure panics at element {stop_at}", &decisions[..decisions.len().min(12)]));
            let r = quiet(|| {
                let mut k = 0;
                v.for_each(|mut e| {
                    if k == stop_at {
                        panic!("for_each closure panics");
                    }
                    match decisions[k] {
                        1 => drop(eyeball_im::ObservableVectorEntry::set(&mut e, Tracked::new(50))),
                        2 => drop(eyeball_im::ObservableVectorEntry::remove(e)),
                        _ => {}
                    }
                    k += 1;
                });
            });
            ev.count(if r.is_none() { "unwind_for_each_panicked" } else { "unwind_for_each_completed" });
        }
        2 | 3 => {
            // a transaction that is dropped by the unwinding (= abandoned, C07)
            quiescent_check!("before the transaction");
            let before: Vec<Item> = items_of(v.iter());
            let n = rng.range(0, 4);
            let with_entries = rng.chance(1, 3);
            log.push(format!("transaction with {n} operations (for_each inside: {with_entries}), then panic while it is alive"));
            let r = quiet(|| {
                let mut t = v.transaction();
                for _ in 0..n {
                    let len = t.len();
                    match rng.below(6) {
                        0 => t.push_back(Tracked::new(60)),
                        1 => t.push_front(Tracked::new(61)),
                        2 => drop(t.pop_back()),
                        3 if len > 0 => drop(t.set(rng.below(len), Tracked::new(62))),
                        4 => t.clear(),
                        _ => t.insert(rng.below(len + 1), Tracked::new(63)),
                    }
                }
                if with_entries {
                    let mut k = 0;
                    t.for_each(|e| {
                        if k == 1 {
                            panic!("closure of the transaction's for_each panics");
                        }
                        drop(eyeball_im::ObservableVectorTransactionEntry::remove(e));
                        k += 1;
                    });
                }
                panic!("panic while a transaction is alive");
            });
            assert!(r.is_none());
            ev.count("unwind_transactions_dropped_by_a_panic");
            let after: Vec<Item> = items_of(v.iter());
            if vals(&before) != vals(&after) {
                complaints.push(("C07", format!("a transaction dropped while unwinding changed the contents {:?} -> {:?}", vals(&before), vals(&after))));
            }
            for r in s1.iter_mut() {
                let n0 = r.replica.clone();
                let _ = drain1(r, 1);
                if vals(&n0) != vals(&r.replica) || r.ended {
                    complaints.push(("C07", "a subscriber received a diff from a transaction that was dropped while unwinding".into()));
                }
            }
            for r in sb.iter_mut() {
                let n0 = r.replica.clone();
                let _ = drainb(r, 1);
                if vals(&n0) != vals(&r.replica) || r.ended {
                    complaints.push(("C07", "a batched subscriber received a batch from a transaction that was dropped while unwinding".into()));
                }
            }
        }
        4 | 5 => {
            // a transaction in which one call panics (the element's Clone at its k-th call after arming - inside
            // the library's own clone or inside imbl's copy-on-write - or an out-of-range index), the caller
            // catches it, goes on and commits
            quiescent_check!("before the transaction");
            let pre: Vec<Item> = items_of(v.iter());
            let n = rng.range(1, 5);
            let bad = rng.below(n);
            let k = if rng.chance(1, 2) { rng.below(3) as u32 } else { rng.below(70) as u32 };
            let oob = rng.chance(1, 3);
            log.push(format!("transaction of {n} operations; in number {bad} {}; then commit", if oob { "the index is out of range".to_string() } else { format!("Clone panics at its call number {k}") }));
            let mut t = v.transaction();
            let mut fired_any = false;
            for j in 0..n {
                let len = t.len();
                let x = Tracked::new(64 + j as u32);
                let which = rng.below(6);
                // (a Clone that panics inside imbl's copy-on-write of a vector of several chunks leaves that
                // vector broken - later calls panic inside imbl -, so those panics are only provoked in
                // vectors of one chunk)
                if j == bad && !oob && !ever_big && len <= 56 {
                    arm(ARM_CLONE, k);
                }
                let off = if j == bad && oob { 1 + rng.below(2) } else { 0 };
                let r = quiet(|| match which {
                    0 => t.push_back(x),
                    1 => t.push_front(x),
                    2 => t.insert(rng.below(len + 1) + off, x),
                    3 if len > 0 || off > 0 => drop(t.set(if len > 0 { rng.below(len) } else { 0 } + off * len.max(1), x)),
                    4 => {
                        drop(x);
                        drop(t.pop_front())
                    }
                    _ => t.append([x].into_iter().collect()),
                });
                if j == bad {
                    let fired = !oob && !disarm();
                    if fired {
                        leak_tolerant = true;
                    }
                    fired_any = r.is_none();
                    let _ = fired;
                }
            }
            disarm();
            ev.count(if fired_any { "unwind_transaction_call_panicked_and_was_caught" } else { "unwind_transaction_call_did_not_panic" });
            let view: Vec<Item> = items_of(t.iter());
            t.commit();
            let post: Vec<Item> = items_of(v.iter());
            if vals(&view) != vals(&post) {
                complaints.push(("C07", format!("commit after a caught panic: the handle showed {:?}, the contents are {:?}", vals(&view), vals(&post))));
            }
            // the first batched subscriber is up to date: what it receives now is what the commit published
            if let Some(r) = sb.first_mut() {
                let mut rep = pre.clone();
                let mut published: Vec<D> = vec![];
                let mut bad_poll = None;
                loop {
                    let (_f, w) = flag_waker();
                    let mut cx = Context::from_waker(&w);
                    match quiet(|| Pin::new(&mut r.s).poll_next(&mut cx)) {
                        Some(Poll::Ready(Some(ds))) => {
                            if ds.is_empty() {
                                bad_poll = Some("an empty batch was delivered".to_string());
                            }
                            published.extend(ds.iter().map(D::of));
                            if published.len() > 10_000 {
                                break;
                            }
                        }
                        Some(Poll::Pending) => break,
                        Some(Poll::Ready(None)) => {
                            bad_poll = Some("the stream ended although the vector is alive".into());
                            break;
                        }
                        None => {
                            bad_poll = Some(format!("poll_next panicked: {}", last_panic()));
                            break;
                        }
                    }
                }
                let applied = apply_all(&mut rep, &published);
                r.replica = rep.clone();
                if let Some(b) = bad_poll {
                    complaints.push(("C07", format!("commit after a caught panic: {b}")));
                } else if let Err(e) = applied {
                    complaints.push(("C05|C07", format!("commit after a caught panic published {} which is inapplicable to the pre-transaction state {:?}: {e}", show_diffs(&published), vals(&pre))));
                } else if vals(&rep) != vals(&post) {
                    complaints.push(("C05|C07", format!("commit after a caught panic: pre-transaction state {:?} + published {} = {:?}, but the contents are {:?}", vals(&pre), show_diffs(&published), vals(&rep), vals(&post))));
                }
            }
        }
        6 | 7 => {
            // the element's Clone panics inside a direct mutator (the k-th clone after arming)
            let k = if rng.chance(1, 2) { rng.below(3) as u32 } else { rng.below(70) as u32 };
            log.push(format!("Clone panics at its call number {k} inside the next mutator"));
            if !ever_big {
                arm(ARM_CLONE, k);
            }
            let r = quiet(|| vec_mutate(rng, &mut v, log));
            let fired = !disarm();
            if fired {
                // The library applies a change and then clones the contents for the message: when that Clone
                // panics the change is made but not published. A Clone that panics is outside what C05-C08
                // quantify over, so from here on only the drop accounting is judged.
                leak_tolerant = true;
                judge = false;
            }
            ev.count(if r.is_none() && fired { "unwind_mutator_clone_panicked" } else { "unwind_mutator_clone_not_reached" });
        }
        _ => {
            // out-of-range calls (the value handed in must be dropped exactly once), directly and in a transaction
            let len = v.len();
            log.push("out-of-range insert / set / remove / entry".into());
            let _ = quiet(|| v.insert(len + 1 + rng.below(2), Tracked::new(70)));
            let _ = quiet(|| drop(v.set(len + rng.below(2), Tracked::new(71))));
            let _ = quiet(|| drop(v.remove(len + rng.below(2))));
            let _ = quiet(|| drop(v.entry(len)));
            let _ = quiet(|| {
                let mut t = v.transaction();
                t.push_back(Tracked::new(72));
                let l = t.len();
                t.insert(l + 1, Tracked::new(73));
            });
            ev.count("unwind_out_of_range_bursts");
        }
    }
    // life goes on: the vector is used normally again
    for _ in 0..rng.below(5) {
        vec_mutate(rng, &mut v, log);
        partial_polls!();
    }
    if judge && rng.chance(1, 2) {
        quiescent_check!("after the caught panic and some further calls");
        for _ in 0..rng.below(3) {
            vec_mutate(rng, &mut v, log);
        }
    }
    // the end: the vector goes away, every stream is drained to its end
    let fin = items_of(v.iter());
    drop(v);
    for (i, r) in s1.iter_mut().enumerate() {
        match drain1(r, 100_000) {
            Err(e) => complaints.push(("C05|C06|C08", format!("after the drop: subscriber {i}: {e}"))),
            Ok(_) if !r.ended => complaints.push(("C08", format!("subscriber {i} is Pending although the vector was dropped"))),
            Ok(_) if vals(&r.replica) != vals(&fin) => {
                complaints.push(("C08", format!("subscriber {i} ended with replica {:?}, the final contents were {:?}", vals(&r.replica), vals(&fin))))
            }
            Ok(_) => {}
        }
    }
    for (i, r) in sb.iter_mut().enumerate() {
        match drainb(r, 100_000) {
            Err(e) => complaints.push(("C05|C06|C08", format!("after the drop: batched subscriber {i}: {e}"))),
            Ok(_) if !r.ended => complaints.push(("C08", format!("batched subscriber {i} is Pending although the vector was dropped"))),
            Ok(_) if vals(&r.replica) != vals(&fin) => {
                complaints.push(("C08", format!("batched subscriber {i} ended with replica {:?}, the final contents were {:?}", vals(&r.replica), vals(&fin))))
            }
            Ok(_) => {}
        }
    }
    ev.count("unwind_vector_streams_drained_to_their_end");
    drop(s1);
    drop(sb);
    if !judge {
        complaints.clear();
    }
    (complaints, leak_tolerant)
}

// ---------------------------------------------------------------------------------------------
// adapters: the user's predicate / mapping / comparison / key function panics in the middle of a poll (or while
// the initial values are computed)

fn adp_case(rng: &mut Rng, log: &mut Vec<String>, ev: &mut Ev) -> bool {
    let mut leak_tolerant = false;
    use std::cell::Cell;
    use std::rc::Rc;
    let cap = *rng.pick(&[2usize, 4, 16]);
    let mut v: ObservableVector<Tracked> = ObservableVector::with_capacity(cap);
    v.append(rand_vec(rng, 8));
    // the callback panics when the counter reaches zero (once)
    let fuse = Rc::new(Cell::new(-1i64));
    let blow = {
        let fuse = fuse.clone();
        move || {
            let c = fuse.get();
            if c == 0 {
                fuse.set(-1);
                panic!("user callback of an adapter panics");
            } else if c > 0 {
                fuse.set(c - 1);
            }
        }
    };
    let kind = rng.below(6);
    let at_construction = rng.chance(1, 4);
    let delay = rng.below(6) as i64;
    if at_construction {
        fuse.set(delay);
    }
    log.push(format!("capacity {cap}, {} items, adapter kind {kind}, callback panics at its call number {delay} ({})", v.len(), if at_construction { "while the adapter is built" } else { "during a later poll" }));
    let batched = rng.chance(1, 2);
    type Dyn1 = Pin<Box<dyn Stream<Item = VectorDiff<Tracked>>>>;
    type DynB = Pin<Box<dyn Stream<Item = Vec<VectorDiff<Tracked>>>>>;
    enum Either {
        One(#[allow(dead_code)] Vector<Tracked>, Dyn1),
        Many(#[allow(dead_code)] Vector<Tracked>, DynB),
    }
    macro_rules! build {
        ($sub:expr, $ctor:ident) => {{
            let b1 = blow.clone();
            let b2 = blow.clone();
            let b3 = blow.clone();
            let b4 = blow.clone();
            match kind {
                0 => {
                    let (a, s) = $sub.filter(move |t: &Tracked| {
                        b1();
                        t.v % 2 == 0
                    });
                    Either::$ctor(a, Box::pin(s))
                }
                1 => {
                    let (a, s) = $sub.filter_map(move |t: Tracked| {
                        b2();
                        (t.v % 3 != 0).then(|| Tracked::new(t.v + 100))
                    });
                    Either::$ctor(a, Box::pin(s))
                }
                2 => {
                    let (a, s) = $sub.sort_by(move |x: &Tracked, y: &Tracked| {
                        b3();
                        y.v.cmp(&x.v)
                    });
                    Either::$ctor(a, Box::pin(s))
                }
                3 => {
                    let (a, s) = $sub.sort_by_key(move |t: &Tracked| {
                        b4();
                        t.v / 2
                    });
                    Either::$ctor(a, Box::pin(s))
                }
                4 => {
                    // Ord of the element type panics (armed below)
                    let (a, s) = $sub.sort();
                    Either::$ctor(a, Box::pin(s))
                }
                _ => {
                    // Clone of the element type panics inside head/tail/skip/filter bookkeeping (armed below)
                    let (a, s) = $sub.head(3).tail(2);
                    Either::$ctor(a, Box::pin(s))
                }
            }
        }};
    }
    if at_construction && kind == 4 {
        arm(ARM_CMP, delay as u32);
    }
    if at_construction && kind == 5 {
        arm(ARM_CLONE, delay as u32);
    }
    let built = quiet(|| {
        if batched {
            build!(eyeball_im_util::vector::VectorSubscriberExt::batched(v.subscribe()), Many)
        } else {
            build!(v.subscribe(), One)
        }
    });
    if at_construction && kind == 5 && !disarm() {
        leak_tolerant = true;
    }
    disarm();
    let Some(mut st) = built else {
        ev.count("unwind_adapter_construction_panicked");
        for _ in 0..3 {
            v.push_back(Tracked::new(1));
        }
        return leak_tolerant;
    };
    let rounds = rng.range(1, 4);
    for r in 0..rounds {
        for _ in 0..rng.range(1, 4) {
            vec_mutate(rng, &mut v, log);
        }
        if rng.chance(1, 4) {
            let vals = rand_vec(rng, 6);
            let mut t = v.transaction();
            t.append(vals);
            t.push_front(Tracked::new(3));
            t.commit();
        }
        if r == 0 && !at_construction {
            fuse.set(delay);
            if kind == 4 {
                arm(ARM_CMP, delay as u32);
            }
            if kind == 5 {
                arm(ARM_CLONE, delay as u32);
            }
        }
        let res = quiet(|| match &mut st {
            Either::One(_, s) => poll_stream(s, 50),
            Either::Many(_, s) => poll_stream(s, 50),
        });
        if kind == 5 && !disarm() && res.is_none() {
            leak_tolerant = true;
        }
        disarm();
        ev.count(if res.is_none() { "unwind_adapter_poll_panicked" } else { "unwind_adapter_poll_completed" });
    }
    if rng.chance(1, 2) {
        drop(v);
        let _ = quiet(|| match &mut st {
            Either::One(_, s) => poll_stream(s, 50),
            Either::Many(_, s) => poll_stream(s, 50),
        });
    }
    fuse.set(-1);
    drop(st);
    leak_tolerant
}

// ---------------------------------------------------------------------------------------------

/// `prop` = the property whose check is running (C20: drop accounting; C07: transactions around a panic; C05 C06
/// C08: subscribers of a vector that is used again after a caught panic; C01 C03 C16 C19: observables after a
/// caught panic of the value's `Clone`)
pub fn run_unwind(p: &Params, prop: &'static str) -> Outcome {
    let seed = p.seed;
    let gen = "unwind";
    let san = p.san();
    p.cases(gen, p.n(30_000, 600_000), move |i, out| {
        let mut rng = Rng::new(mix(seed, mix(hash_of(&gen), i)));
        let case = json!({"gen": gen, "case": i, "seed": seed});
        let mut log: Vec<String> = vec![];
        table_reset();
        out.ev.evaluations += 1;
        let family = rng.below(4);
        let mut ev = Ev::default();
        let r = catch_unwind(AssertUnwindSafe(|| match family {
            0 => (obs_case_sync(&mut rng, &mut log, &mut ev), false),
            1 => (obs_case_async(&mut rng, &mut log, &mut ev), false),
            2 => vec_case(&mut rng, &mut log, &mut ev, san),
            _ => (vec![], adp_case(&mut rng, &mut log, &mut ev)),
        }));
        disarm();
        out.ev.merge(ev);
        let mut reported = false;
        let mut report = |tags: &str, what: String| {
            if tags.split('|').any(|t| t == prop) {
                if !reported {
                    note_divergence(tags, &what);
                    out.violations.push(Violation { property: prop.into(), case: case.clone(), history: log.clone(), what });
                }
                reported = true;
            } else {
                out.ev.foreign += 1;
                out.ev.count(&format!("foreign_divergence_{tags}"));
            }
        };
        match r {
            Err(_) => report("C20", format!("a panic escaped a history in which every expected panic is caught: {}", last_panic())),
            Ok((complaints, leak_tolerant)) => {
                for (tags, c) in complaints {
                    report(tags, c);
                }
                let (live, faults, ids) = table_finish();
                if let Some(f) = faults.first() {
                    report("C20", format!("after a caught panic: {f} ({} fault(s))", faults.len()));
                } else if live != 0 && !leak_tolerant {
                    report("C20", format!("after a caught panic: {live} value(s) still alive after everything was dropped (ids {ids:?})"));
                } else if live != 0 {
                    out.ev.count("unwind_leaks_tolerated_after_a_clone_panic_inside_imbl");
                }
            }
        }
        out.ev.count(["unwind_histories_observable_sync", "unwind_histories_observable_async", "unwind_histories_vector", "unwind_histories_adapter"][family]);
        out.ev.nontrivial(hash_of(&(family, i, seed)));
    })
}
