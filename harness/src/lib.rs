//! Runtime-monitoring harness for jplatte/eyeball (see /verif/DESIGN.md).

pub mod common;
pub mod engine_adp;
pub mod engine_obs;
pub mod engine_thr;
pub mod engine_vec;
pub mod noise;
pub mod runners_adp;
pub mod runners_long;
pub mod runners_migrate;
pub mod runners_misc;
pub mod runners_obs;
pub mod runners_pairs;
pub mod runners_thr;
pub mod runners_unwind;
pub mod runners_vec;
pub mod vops;

use common::{par_cases, Outcome};

#[derive(Clone, Debug)]
pub struct Params {
    pub thorough: bool,
    pub seed: u64,
    pub threads: usize,
    /// replay: only this (generator, case index)
    pub replay: Option<(String, u64)>,
    /// scale factor for random case counts (sanitizer / Miri runs use < 1)
    pub scale: f64,
    pub known: common::Known,
    /// which parts of a multi-part check to run: all | seq | threads
    pub part: String,
    /// sanitizer / Miri mode: absolute number of random cases per generator, exhaustive sets skipped,
    /// small histories
    pub san_cases: Option<u64>,
    /// cap for the number of forced schedules per scenario
    pub max_schedules: Option<usize>,
    /// build-variant runs of ./check: without the generators that are expensive and do not depend on the build
    /// (giant vectors, scale, marathons)
    pub lite: bool,
}

impl Params {
    /// Run `n` cases of generator `gen` in parallel (or just the replayed one).
    pub fn cases<F>(&self, gen: &str, n: u64, f: F) -> Outcome
    where
        F: Fn(u64, &mut Outcome) + Sync,
    {
        if self.lite && (gen.ends_with("-giant") || gen.ends_with("-colossal") || gen.ends_with("-scale") || gen.ends_with("-deep") || gen == "marathon") {
            return Outcome::default();
        }
        if self.san() && gen.contains("-exh") {
            // sanitizer / Miri mode: random generators only (the exhaustive sets run natively)
            return Outcome::default();
        }
        match &self.replay {
            Some((g, i)) => {
                let mut o = Outcome::default();
                if g == gen {
                    f(*i, &mut o);
                }
                o
            }
            None => par_cases(n, self.threads, 1, f),
        }
    }
    pub fn san(&self) -> bool {
        self.san_cases.is_some()
    }
    pub fn n(&self, quick: u64, thorough: u64) -> u64 {
        if let Some(c) = self.san_cases {
            return c.min(quick).max(1);
        }
        let base = if self.thorough { thorough } else { quick };
        ((base as f64 * self.scale) as u64).max(1)
    }
}
