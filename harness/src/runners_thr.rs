//! Thread-level runners: C02 (lost wakeups across threads), C03 (last clones dropped / upgraded
//! concurrently), C04 (linearizability of recorded histories), C16 (async flavour stress).

use std::{
    collections::HashMap,
    future::Future,
    pin::pin,
    sync::{
        atomic::{AtomicBool, AtomicU64, Ordering as AO},
        Arc,
    },
    task::{Context, Poll},
    time::{Duration, Instant},
};

use eyeball::{AsyncLock, Observable, ObservableWriteGuard, SharedObservable, Subscriber};
use futures_core::Stream;
use serde_json::json;

use crate::{common::*, engine_thr::*, Params};

type V = Result<(), (&'static str, String)>;

fn bad<T>(prop: &'static str, what: String) -> Result<T, (&'static str, String)> {
    Err((prop, what))
}


// ---------------------------------------------------------------------------------------------
// directed scenarios

type PollOut = (Poll<Option<u64>>, Arc<FlagWaker>);

/// what the directed scenarios need from a subscriber of either lock flavour
pub trait SubLike: Stream<Item = u64> + Unpin + Send + 'static {
    fn get_now(&self) -> u64;
}
impl SubLike for Subscriber<u64> {
    fn get_now(&self) -> u64 {
        self.get()
    }
}
impl SubLike for Subscriber<u64, AsyncLock> {
    fn get_now(&self) -> u64 {
        block_on_park(self.get())
    }
}

fn poll_role<S: SubLike>(sub: Slot<S>, res: Slot<PollOut>) -> RoleFn {
    Box::new(move || {
        let mut s = sub.lock().unwrap().take().unwrap();
        let r = poll_stream_once(&mut s);
        *sub.lock().unwrap() = Some(s);
        *res.lock().unwrap() = Some(r);
    })
}

/// after the roles have joined: drain the subscriber and compare with what must be there
fn settle<S: SubLike>(
    sub: &Slot<S>,
    first: &Slot<PollOut>,
    must_end: bool,
    owner_alive: bool,
    last_value: Option<u64>,
    who: &str,
) -> V {
    // (a role that did not run to its end - only possible in a stuck run - leaves nothing to judge)
    let Some((r, flag)) = first.lock().unwrap().take() else { return Ok(()) };
    let Some(mut s) = sub.lock().unwrap().take() else { return Ok(()) };
    let mut seen: Vec<Option<u64>> = vec![];
    match r {
        Poll::Ready(x) => seen.push(x),
        Poll::Pending => {
            // whatever happened afterwards (update or close) must have woken this waker
            let (r2, _f2) = poll_stream_once(&mut s);
            match r2 {
                Poll::Ready(x) => {
                    if !flag.woken() {
                        return bad("C02|C04", format!("{who}: the poll answered Pending, a later poll answers Ready({x:?}), but the waker of the Pending poll was never woken (lost wakeup)"));
                    }
                    seen.push(x);
                }
                Poll::Pending => {
                    if must_end {
                        return bad("C03", format!("{who}: every owner is gone but the subscriber is still Pending (woken = {})", flag.woken()));
                    }
                    if last_value.is_some() {
                        return bad("C02", format!("{who}: an update happened but the subscriber is Pending twice in a row (woken = {})", flag.woken()));
                    }
                }
            }
        }
    }
    // drain
    for _ in 0..4 {
        if seen.last() == Some(&None) {
            break;
        }
        let (r, _f) = poll_stream_once(&mut s);
        match r {
            Poll::Ready(x) => seen.push(x),
            Poll::Pending => break,
        }
    }
    let ended = seen.last() == Some(&None);
    if owner_alive && ended {
        return bad("C03", format!("{who}: the stream ended although an owner is alive (saw {seen:?})"));
    }
    if must_end && !ended {
        return bad("C03", format!("{who}: every owner is gone but the stream did not end (saw {seen:?})"));
    }
    if let Some(v) = last_value {
        let got = s.get_now();
        if got != v {
            return bad("C01", format!("{who}: get() = {got} after the writers finished, last written value {v}"));
        }
        if !must_end && !seen.contains(&Some(v)) {
            return bad("C02", format!("{who}: the update to {v} never reached the subscriber (saw {seen:?})"));
        }
    }
    *sub.lock().unwrap() = Some(s);
    Ok(())
}

#[derive(PartialEq, Eq, Clone, Copy, Debug)]
pub enum Scen {
    PollSetShared,
    PollCloseShared,
    TwoPollsSetShared,
    PollDropCloneThenSet,
    PollSetCloseShared,
    PollSetUnique,
    PollCloseUnique,
    TwoLastClonesDropped,
    DropVsUpgrade,
    ThreeClonesDropped,
    DropUpgradePoll,
    /// poll s1 || (drop another subscriber, then set)
    PollVsSubscriberDropThenSet,
    /// unique -> shared conversion on one thread while a subscriber polls on another, then set
    IntoSharedVsPoll,
    /// async-lock flavour: poll || set (the writer drives its future on a park/unpark executor)
    PollSetAsync,
    /// async-lock flavour: poll || drop of the last owner
    PollCloseAsync,
    /// a read guard held across a pause point || set
    ReadGuardVsSet,
    /// a write guard held across pause points (with a set through it) || get || subscriber poll
    WriteGuardVsGetAndPoll,
    /// the last clone is dropped while two other threads upgrade the same weak reference
    DropVsTwoUpgrades,
    /// a writer that never notifies (write guard only read, update_if -> false, set_if_not_eq(equal)) ||
    /// subscribe + first poll + get on another thread
    SubscribeVsQuietWriter,
    /// drop accounting (process-wide table) for the races around the last owner
    C20DropVsUpgrade,
    C20DropVsUpgradeWithSubscriber,
    C20TwoLastClonesAndWeak,
    C20IntoSharedVsSubscriberDrop,
}

pub const C20_SCENS: &[Scen] =
    &[Scen::C20DropVsUpgrade, Scen::C20DropVsUpgradeWithSubscriber, Scen::C20TwoLastClonesAndWeak, Scen::C20IntoSharedVsSubscriberDrop];

pub const C01_SCENS: &[Scen] = &[Scen::SubscribeVsQuietWriter];

pub const C04_GUARD_SCENS: &[Scen] = &[Scen::ReadGuardVsSet, Scen::WriteGuardVsGetAndPoll];

pub const C02_SCENS: &[Scen] = &[
    Scen::PollSetShared,
    Scen::PollCloseShared,
    Scen::TwoPollsSetShared,
    Scen::PollDropCloneThenSet,
    Scen::PollSetCloseShared,
    Scen::PollSetUnique,
    Scen::PollCloseUnique,
    Scen::PollVsSubscriberDropThenSet,
    Scen::PollSetAsync,
    Scen::PollCloseAsync,
];
pub const C03_SCENS: &[Scen] = &[
    Scen::TwoLastClonesDropped,
    Scen::DropVsUpgrade,
    Scen::ThreeClonesDropped,
    Scen::DropUpgradePoll,
    Scen::IntoSharedVsPoll,
    Scen::DropVsTwoUpgrades,
    // the close racing with a poll: the stream must still end (the wake-up side of these is C02's)
    Scen::PollCloseShared,
    Scen::PollCloseUnique,
    Scen::PollSetCloseShared,
    Scen::PollCloseAsync,
];

fn run_scen(sc: Scen, prefix: &[usize]) -> (SchedRun, V) {
    match sc {
        Scen::PollSetShared => {
            let ob = SharedObservable::new(0u64);
            let sub = slot_with(ob.subscribe());
            let res = slot();
            let w = ob.clone();
            let run = run_schedule(vec![poll_role(sub.clone(), res.clone()), Box::new(move || { w.set(1); })], prefix, t_block());
            let v = settle(&sub, &res, false, true, Some(1), "poll || set");
            drop(ob);
            (run, v)
        }
        Scen::PollCloseShared => {
            let ob = SharedObservable::new(0u64);
            let sub = slot_with(ob.subscribe());
            let res = slot();
            let run = run_schedule(vec![poll_role(sub.clone(), res.clone()), Box::new(move || drop(ob))], prefix, t_block());
            let v = settle(&sub, &res, true, false, None, "poll || drop of the last owner");
            (run, v)
        }
        Scen::TwoPollsSetShared => {
            let ob = SharedObservable::new(0u64);
            let s1 = slot_with(ob.subscribe());
            let s2 = slot_with(ob.subscribe());
            let (r1, r2) = (slot(), slot());
            let w = ob.clone();
            let run = run_schedule(
                vec![poll_role(s1.clone(), r1.clone()), poll_role(s2.clone(), r2.clone()), Box::new(move || { w.set(1); })],
                prefix,
                t_block(),
            );
            let v = settle(&s1, &r1, false, true, Some(1), "poll s1 || poll s2 || set (s1)")
                .and_then(|_| settle(&s2, &r2, false, true, Some(1), "poll s1 || poll s2 || set (s2)"));
            drop(ob);
            (run, v)
        }
        Scen::PollDropCloneThenSet => {
            let ob = SharedObservable::new(0u64);
            let sub = slot_with(ob.subscribe());
            let res = slot();
            let c = ob.clone();
            let w = ob.clone();
            let run = run_schedule(
                vec![
                    poll_role(sub.clone(), res.clone()),
                    Box::new(move || {
                        drop(c);
                        w.set(1);
                    }),
                ],
                prefix,
                t_block(),
            );
            let v = settle(&sub, &res, false, true, Some(1), "poll || drop of a non-last clone, then set");
            drop(ob);
            (run, v)
        }
        Scen::PollSetCloseShared => {
            let ob = SharedObservable::new(0u64);
            let sub = slot_with(ob.subscribe());
            let res = slot();
            let c1 = ob.clone();
            let run = run_schedule(
                vec![
                    poll_role(sub.clone(), res.clone()),
                    Box::new(move || {
                        c1.set(1);
                        drop(c1);
                    }),
                    Box::new(move || drop(ob)),
                ],
                prefix,
                t_block(),
            );
            let v = settle(&sub, &res, true, false, Some(1), "poll || set || close");
            (run, v)
        }
        Scen::PollSetUnique => {
            let ob = Observable::new(0u64);
            let sub = slot_with(Observable::subscribe(&ob));
            let res = slot();
            let obs = slot_with(ob);
            let obs2 = obs.clone();
            let run = run_schedule(
                vec![
                    poll_role(sub.clone(), res.clone()),
                    Box::new(move || {
                        let mut o = obs2.lock().unwrap().take().unwrap();
                        Observable::set(&mut o, 1);
                        *obs2.lock().unwrap() = Some(o);
                    }),
                ],
                prefix,
                t_block(),
            );
            let v = settle(&sub, &res, false, true, Some(1), "unique: poll || set");
            drop(obs);
            (run, v)
        }
        Scen::PollCloseUnique => {
            let ob = Observable::new(0u64);
            let sub = slot_with(Observable::subscribe(&ob));
            let res = slot();
            let run = run_schedule(vec![poll_role(sub.clone(), res.clone()), Box::new(move || drop(ob))], prefix, t_block());
            let v = settle(&sub, &res, true, false, None, "unique: poll || drop");
            (run, v)
        }
        Scen::PollSetAsync => {
            let ob: SharedObservable<u64, AsyncLock> = SharedObservable::new_async(0u64);
            let sub = slot_with(block_on_park(ob.subscribe()));
            let res = slot();
            let w = ob.clone();
            let run = run_schedule(
                vec![
                    poll_role(sub.clone(), res.clone()),
                    Box::new(move || {
                        block_on_park(w.set(1));
                    }),
                ],
                prefix,
                t_block(),
            );
            let v = settle(&sub, &res, false, true, Some(1), "async-lock: poll || set");
            drop(ob);
            (run, v)
        }
        Scen::PollCloseAsync => {
            let ob: SharedObservable<u64, AsyncLock> = SharedObservable::new_async(0u64);
            let sub = slot_with(block_on_park(ob.subscribe()));
            let res = slot();
            let run = run_schedule(vec![poll_role(sub.clone(), res.clone()), Box::new(move || drop(ob))], prefix, t_block());
            let v = settle(&sub, &res, true, false, None, "async-lock: poll || drop of the last owner");
            (run, v)
        }
        Scen::ReadGuardVsSet => {
            let ob = SharedObservable::new(0u64);
            let clock = Arc::new(Clock(AtomicU64::new(0)));
            let hold: Slot<(u64, u64, u64, u64)> = slot();
            let wr: Slot<(u64, u64, u64)> = slot();
            let (c1, c2) = (ob.clone(), ob.clone());
            let (k1, k2) = (clock.clone(), clock.clone());
            let (h2, w2) = (hold.clone(), wr.clone());
            let run = run_schedule(
                vec![
                    Box::new(move || {
                        let g = c1.read();
                        let t1 = k1.tick();
                        let v1 = *g;
                        pause("guard:held");
                        let v2 = *g;
                        let t2 = k1.tick();
                        drop(g);
                        *h2.lock().unwrap() = Some((t1, t2, v1, v2));
                    }),
                    Box::new(move || {
                        let inv = k2.tick();
                        let prev = c2.set(1);
                        let res = k2.tick();
                        *w2.lock().unwrap() = Some((inv, res, prev));
                    }),
                ],
                prefix,
                t_block(),
            );
            let (Some((t1, t2, v1, v2)), Some((inv, res, prev))) = (hold.lock().unwrap().take(), wr.lock().unwrap().take()) else {
                return (run, Ok(())); // a role did not finish (stuck run): nothing to judge
            };
            let v = if v1 != v2 {
                bad("C04", format!("the value changed while a read guard was alive: {v1} -> {v2}"))
            } else if inv > t1 && res < t2 {
                bad("C04", format!("a set was invoked and completed (clock {inv}..{res}) entirely while a read guard was alive (clock {t1}..{t2})"))
            } else if prev != 0 || ob.get() != 1 {
                bad("C04", format!("set returned {prev} (expected 0) / final value {}", ob.get()))
            } else {
                Ok(())
            };
            (run, v)
        }
        Scen::WriteGuardVsGetAndPoll => {
            let ob = SharedObservable::new(0u64);
            let clock = Arc::new(Clock(AtomicU64::new(0)));
            let hold: Slot<(u64, u64)> = slot();
            let rd: Slot<(u64, u64, u64)> = slot();
            let sub = slot_with(ob.subscribe());
            let res = slot();
            let (c1, c2) = (ob.clone(), ob.clone());
            let (k1, k2) = (clock.clone(), clock.clone());
            let (h2, r2) = (hold.clone(), rd.clone());
            let run = run_schedule(
                vec![
                    Box::new(move || {
                        let mut g = c1.write();
                        let t1 = k1.tick();
                        pause("wguard:held");
                        ObservableWriteGuard::set(&mut g, 5);
                        // a second, non-notifying access through the same guard must not undo the notification
                        ObservableWriteGuard::update_if(&mut g, |_| false);
                        pause("wguard:after-set");
                        let t2 = k1.tick();
                        drop(g);
                        *h2.lock().unwrap() = Some((t1, t2));
                    }),
                    Box::new(move || {
                        let inv = k2.tick();
                        let v = c2.get();
                        let res = k2.tick();
                        *r2.lock().unwrap() = Some((inv, res, v));
                    }),
                    poll_role(sub.clone(), res.clone()),
                ],
                prefix,
                t_block(),
            );
            let (Some((t1, t2)), Some((inv, rres, v))) = (hold.lock().unwrap().take(), rd.lock().unwrap().take()) else {
                return (run, Ok(()));
            };
            let mut verdict = if inv > t1 && rres < t2 {
                bad("C04", format!("a get was invoked and completed (clock {inv}..{rres}) entirely while a write guard was alive (clock {t1}..{t2})"))
            } else if inv > t1 && v != 5 {
                bad("C04", format!("a get invoked after the write guard was taken returned {v}, the guard stored 5"))
            } else if v != 0 && v != 5 {
                bad("C04", format!("get returned {v}, which was never the value"))
            } else {
                Ok(())
            };
            if verdict.is_ok() {
                verdict = settle(&sub, &res, false, true, Some(5), "write guard || get || poll");
            }
            drop(ob);
            (run, verdict)
        }
        Scen::C20DropVsUpgrade | Scen::C20DropVsUpgradeWithSubscriber | Scen::C20TwoLastClonesAndWeak => {
            use crate::common::counted::{self, Counted};
            let arena = counted::new_arena();
            let ob = SharedObservable::new(Counted::new(arena, 0));
            let weak = ob.downgrade();
            let sub = if sc == Scen::C20DropVsUpgradeWithSubscriber { Some(ob.subscribe()) } else { None };
            let second = if sc == Scen::C20TwoLastClonesAndWeak { Some(ob.clone()) } else { None };
            let mut roles: Vec<Box<dyn FnOnce() + Send>> = vec![
                Box::new(move || drop(ob)),
                Box::new(move || {
                    if let Some(h) = weak.upgrade() {
                        let prev = h.set(Counted::new(arena, 1));
                        drop(prev);
                        let got = h.get();
                        drop(got);
                        drop(h);
                    }
                    drop(weak);
                }),
            ];
            if let Some(c) = second {
                roles.push(Box::new(move || drop(c)));
            }
            let run = run_schedule(roles, prefix, t_block());
            if let Some(mut s) = sub {
                let _ = poll_stream_once(&mut s);
                let _ = s.get();
                drop(s);
            }
            let (live, faults) = counted::finish(arena);
            let v = if let Some(f) = faults.first() {
                bad("C20", format!("{sc:?}: {f} ({} fault(s))", faults.len()))
            } else if live != 0 && !run.stuck {
                bad("C20", format!("{sc:?}: {live} value(s) still alive after every handle, weak reference and subscriber is gone"))
            } else {
                Ok(())
            };
            (run, v)
        }
        Scen::C20IntoSharedVsSubscriberDrop => {
            use crate::common::counted::{self, Counted};
            let arena = counted::new_arena();
            let ob = Observable::new(Counted::new(arena, 0));
            let s1 = Observable::subscribe(&ob);
            let mut s2 = Observable::subscribe(&ob);
            let run = run_schedule(
                vec![
                    Box::new(move || {
                        let sh = Observable::into_shared(ob);
                        let prev = sh.set(Counted::new(arena, 1));
                        drop(prev);
                        drop(sh);
                    }),
                    Box::new(move || drop(s1)),
                    Box::new(move || {
                        let _ = poll_stream_once(&mut s2);
                        let _ = s2.next_now();
                        drop(s2);
                    }),
                ],
                prefix,
                t_block(),
            );
            let (live, faults) = counted::finish(arena);
            let v = if let Some(f) = faults.first() {
                bad("C20", format!("{sc:?}: {f} ({} fault(s))", faults.len()))
            } else if live != 0 && !run.stuck {
                bad("C20", format!("{sc:?}: {live} value(s) still alive after the observable and its subscribers are gone"))
            } else {
                Ok(())
            };
            (run, v)
        }
        Scen::SubscribeVsQuietWriter => {
            let ob = SharedObservable::new(0u64);
            let (c1, c2) = (ob.clone(), ob.clone());
            let got: Slot<(bool, Option<Option<u64>>, u64, u64)> = slot();
            let g2 = got.clone();
            let run = run_schedule(
                vec![
                    Box::new(move || {
                        let g = c1.write();
                        let seen = *g;
                        pause("wguard:held");
                        drop(g);
                        c1.update_if(|_| false);
                        let r = c1.set_if_not_eq(seen);
                        assert!(r.is_none());
                    }),
                    Box::new(move || {
                        let mut s = c2.subscribe();
                        let (r, _flag) = poll_stream_once(&mut s);
                        let v = s.get();
                        let now = s.next_now();
                        let out = match r {
                            Poll::Pending => (true, None, v, now),
                            Poll::Ready(x) => (false, Some(x), v, now),
                        };
                        *g2.lock().unwrap() = Some(out);
                    }),
                ],
                prefix,
                t_block(),
            );
            let Some((pending, ready, v, now)) = got.lock().unwrap().take() else {
                return (run, Ok(()));
            };
            let verdict = if !pending {
                bad(
                    "C01|C04",
                    format!("a subscriber created by subscribe() while another thread only took non-notifying write accesses answered Ready({:?}) on its first poll: no notifying update ever happened and it was not reset", ready.unwrap()),
                )
            } else if v != 0 || now != 0 {
                bad("C01|C04", format!("get / next_now returned {v} / {now}, the value was 0 throughout"))
            } else {
                Ok(())
            };
            drop(ob);
            (run, verdict)
        }
        Scen::PollVsSubscriberDropThenSet => {
            let ob = SharedObservable::new(0u64);
            let sub = slot_with(ob.subscribe());
            let mut other = ob.subscribe();
            // the other subscriber has a waker registered, too
            let _ = poll_stream_once(&mut other);
            let res = slot();
            let w = ob.clone();
            let run = run_schedule(
                vec![
                    poll_role(sub.clone(), res.clone()),
                    Box::new(move || {
                        drop(other);
                        w.set(1);
                    }),
                ],
                prefix,
                t_block(),
            );
            let v = settle(&sub, &res, false, true, Some(1), "poll || drop of another subscriber, then set");
            drop(ob);
            (run, v)
        }
        Scen::IntoSharedVsPoll => {
            let ob = Observable::new(0u64);
            let sub = slot_with(Observable::subscribe(&ob));
            let res = slot();
            let shared: Slot<SharedObservable<u64>> = slot();
            let sh2 = shared.clone();
            let run = run_schedule(
                vec![
                    poll_role(sub.clone(), res.clone()),
                    Box::new(move || {
                        let s = Observable::into_shared(ob);
                        s.set(1);
                        *sh2.lock().unwrap() = Some(s);
                    }),
                ],
                prefix,
                t_block(),
            );
            let v = settle(&sub, &res, false, true, Some(1), "poll || into_shared, then set");
            drop(shared);
            (run, v)
        }
        Scen::DropVsTwoUpgrades => {
            let ob = SharedObservable::new(0u64);
            let weak = ob.downgrade();
            let weak2 = weak.clone();
            let mut s = ob.subscribe();
            let first = poll_stream_once(&mut s);
            let sub = slot_with(s);
            let res = slot_with(first);
            let h1: Slot<SharedObservable<u64>> = slot();
            let h2: Slot<SharedObservable<u64>> = slot();
            let (a, b) = (h1.clone(), h2.clone());
            let run = run_schedule(
                vec![
                    Box::new(move || drop(ob)),
                    Box::new(move || {
                        if let Some(h) = weak.upgrade() {
                            h.set(7);
                            *a.lock().unwrap() = Some(h);
                        }
                    }),
                    Box::new(move || {
                        if let Some(h) = weak2.upgrade() {
                            *b.lock().unwrap() = Some(h);
                        }
                    }),
                ],
                prefix,
                t_block(),
            );
            let up1 = h1.lock().unwrap().take();
            let up2 = h2.lock().unwrap().take();
            let who = "drop of the last clone || upgrade (then set) || upgrade";
            let alive = up1.is_some() as usize + up2.is_some() as usize;
            let mut v = if up1.is_some() {
                settle(&sub, &res, false, true, Some(7), who)
            } else if up2.is_some() {
                settle(&sub, &res, false, true, None, who)
            } else {
                settle(&sub, &res, true, false, None, who)
            };
            if v.is_ok() && alive > 0 {
                for h in [&up1, &up2].into_iter().flatten() {
                    if h.observable_count() != alive {
                        v = bad("C19", format!("{who}: an upgraded handle reports observable_count = {}, {alive} handle(s) exist", h.observable_count()));
                    }
                }
                drop(up1);
                drop(up2);
                if let Some(mut s) = sub.lock().unwrap().take() {
                    let (r, _f) = poll_stream_once(&mut s);
                    if v.is_ok() && r != Poll::Ready(None) {
                        v = bad("C03", format!("{who}: after the upgraded handles were dropped too the subscriber answers {r:?}"));
                    }
                }
            }
            (run, v)
        }
        Scen::TwoLastClonesDropped => {
            let ob = SharedObservable::new(0u64);
            let c2 = ob.clone();
            let mut s = ob.subscribe();
            let first = poll_stream_once(&mut s);
            let sub = slot_with(s);
            let res = slot_with(first);
            let run = run_schedule(vec![Box::new(move || drop(ob)), Box::new(move || drop(c2))], prefix, t_block());
            let v = settle(&sub, &res, true, false, None, "two threads drop the last two clones");
            (run, v)
        }
        Scen::ThreeClonesDropped => {
            let ob = SharedObservable::new(0u64);
            let c2 = ob.clone();
            let c3 = ob.clone();
            let mut s = ob.subscribe();
            let first = poll_stream_once(&mut s);
            let sub = slot_with(s);
            let res = slot_with(first);
            let run = run_schedule(
                vec![Box::new(move || drop(ob)), Box::new(move || drop(c2)), Box::new(move || drop(c3))],
                prefix,
                t_block(),
            );
            let v = settle(&sub, &res, true, false, None, "three threads drop the last three clones");
            (run, v)
        }
        Scen::DropVsUpgrade | Scen::DropUpgradePoll => {
            let ob = SharedObservable::new(0u64);
            let weak = ob.downgrade();
            let with_poll = matches!(sc, Scen::DropUpgradePoll);
            let mut s = ob.subscribe();
            let first = if with_poll { None } else { Some(poll_stream_once(&mut s)) };
            let sub = slot_with(s);
            let res: Slot<PollOut> = match first {
                Some(f) => slot_with(f),
                None => slot(),
            };
            let handle: Slot<SharedObservable<u64>> = slot();
            let h2 = handle.clone();
            let mut roles: Vec<RoleFn> = vec![
                Box::new(move || drop(ob)),
                Box::new(move || {
                    if let Some(h) = weak.upgrade() {
                        h.set(7);
                        *h2.lock().unwrap() = Some(h);
                    }
                }),
            ];
            if with_poll {
                roles.push(poll_role(sub.clone(), res.clone()));
            }
            let run = run_schedule(roles, prefix, t_block());
            let upgraded = handle.lock().unwrap().is_some();
            let who = if with_poll { "drop || upgrade || poll" } else { "drop of the last clone || upgrade" };
            let mut v = if upgraded {
                // an owner exists: the stream must not end and the set must reach the subscriber
                settle(&sub, &res, false, true, Some(7), who)
            } else {
                settle(&sub, &res, true, false, None, who)
            };
            if v.is_ok() && upgraded {
                let Some(h) = handle.lock().unwrap().take() else { return (run, Ok(())) };
                if h.observable_count() != 1 {
                    v = bad("C19", format!("{who}: the upgraded handle reports observable_count = {}", h.observable_count()));
                }
                drop(h);
                let Some(mut s) = sub.lock().unwrap().take() else { return (run, v) };
                let (r, _f) = poll_stream_once(&mut s);
                if v.is_ok() && r != Poll::Ready(None) {
                    v = bad("C03", format!("{who}: after the upgraded handle was dropped too the subscriber answers {r:?}"));
                }
            }
            (run, v)
        }
    }
}

pub fn run_directed(prop: &str, scens: &[Scen], p: &Params, max_schedules: usize) -> Outcome {
    let gen_name = "directed";
    let mut out = p.cases(gen_name, scens.len() as u64, |i, out| {
        let sc = scens[i as usize];
        let ex = explore(max_schedules, |prefix| run_scen(sc, prefix));
        out.ev.evaluations += ex.executed as u64;
        out.ev.add("schedules_executed", ex.executed as u64);
        out.ev.add("schedules_distinct", ex.distinct.len() as u64);
        out.ev.add("schedules_with_a_blocked_edge", ex.with_blocked_edge as u64);
        out.ev.add("schedules_diverged_from_prefix", ex.diverged as u64);
        out.ev.add("scenarios_enumerated_completely", ex.complete as u64);
        for h in &ex.distinct {
            out.ev.nontrivial(mix(*h, i));
        }
        if out.ev.samples.len() < 3 {
            out.ev.sample(json!({"scenario": format!("{sc:?}"), "schedule": ex.sample}));
        }
        if ex.stuck > 0 {
            out.inconclusive.push(format!("scenario {sc:?}: {} schedule(s) got stuck (roles neither parked nor finished)", ex.stuck));
        }
        if let Some((vp, what, trace, prefix)) = ex.violation {
            if vp.split('|').any(|t| t == prop) {
                out.violations.push(Violation {
                    property: prop.to_string(),
                    case: json!({"gen": gen_name, "case": i, "prefix": prefix}),
                    history: std::iter::once(format!("scenario {sc:?}")).chain(trace).collect(),
                    what,
                });
            } else {
                out.ev.foreign += 1;
                out.ev.count(&format!("foreign_divergence_{vp}"));
            }
        }
    });
    out.ev.exhaustive_scopes.push(format!(
        "directed: scenarios {scens:?}, every order in which the roles pass the pause points (poll:enter/locked/registered, waker:clone, update:locked, close:enter/locked, sdrop:enter/decided, upgrade:between), up to {max_schedules} schedules each"
    ));
    out
}

// ---------------------------------------------------------------------------------------------
// free-running: lost wakeups / end of stream (C02, C03)

fn free_round_c02(seed: u64, pm: u64) -> Result<(u64, u64, u64), (&'static str, String)> {
    install_hook();
    let mut rng = Rng::new(seed);
    let unique = rng.chance(1, 4);
    let n_subs = rng.range(1, 3);
    let n_writers = if unique { 1 } else { rng.range(1, 2) };
    let sets = if small() { rng.range(1, 4) } else { rng.range(1, 12) };
    let quiesce = Arc::new(Quiesce(AtomicBool::new(false)));
    // in half of the shared rounds one owner outlives the writers: a subscriber that is Pending and
    // unwoken after the last update completed must then really have nothing new (update-side lost
    // wake-ups would otherwise be repaired by the wake-up of the close)
    let hold_owner = !unique && rng.chance(1, 2);
    let writers_done = Arc::new(Quiesce(AtomicBool::new(false)));
    let uniq_ob = if unique { Some(Observable::new(0u64)) } else { None };
    let shared_ob = if unique { None } else { Some(SharedObservable::new(0u64)) };
    let mut subs = vec![];
    for _ in 0..n_subs {
        subs.push(match (&uniq_ob, &shared_ob) {
            (Some(o), _) => Observable::subscribe(o),
            (_, Some(o)) => o.subscribe(),
            _ => unreachable!(),
        });
    }
    let mut sub_threads = vec![];
    for (k, mut s) in subs.into_iter().enumerate() {
        let q = quiesce.clone();
        let wd = writers_done.clone();
        let sseed = mix(seed, 100 + k as u64);
        sub_threads.push(std::thread::spawn(move || -> Result<(u64, u64, u64), (&'static str, String)> {
            set_free_mode(sseed, pm);
            let (mut ready, mut pend, mut wakes) = (0u64, 0u64, 0u64);
            let mut last = 0u64;
            loop {
                let (flag, w) = pause_waker(true);
                let mut cx = Context::from_waker(&w);
                match std::pin::Pin::new(&mut s).poll_next(&mut cx) {
                    Poll::Ready(Some(v)) => {
                        ready += 1;
                        if v < last {
                            return bad("C04", format!("subscriber {k} saw {v} after {last}: values went backwards"));
                        }
                        last = v;
                    }
                    Poll::Ready(None) => break,
                    Poll::Pending => {
                        pend += 1;
                        let mut flag = flag;
                        let mut checked = false;
                        loop {
                            if flag.woken() {
                                wakes += 1;
                                break;
                            }
                            if !checked && wd.get() && !flag.woken() {
                                // every update has completed and an owner is still alive: this Pending
                                // poll was not woken, so it must have come after the last update
                                checked = true;
                                let (f2, w2) = pause_waker(true);
                                let mut cx2 = Context::from_waker(&w2);
                                match std::pin::Pin::new(&mut s).poll_next(&mut cx2) {
                                    Poll::Ready(Some(v)) => {
                                        return bad("C02", format!("subscriber {k}: lost wakeup - Pending and never woken although an update (value {v}) it had not observed was stored before the writers finished"));
                                    }
                                    Poll::Ready(None) => break,
                                    Poll::Pending => flag = f2,
                                }
                                continue;
                            }
                            if q.get() {
                                if flag.woken() {
                                    wakes += 1;
                                    break;
                                }
                                // everything has happened: all writers joined, all owners dropped.
                                let (r, _f) = poll_stream_once(&mut s);
                                return match r {
                                    Poll::Ready(x) => bad("C02", format!("subscriber {k}: lost wakeup - Pending, never woken, yet a later poll answers Ready({x:?})")),
                                    Poll::Pending => bad("C03", format!("subscriber {k}: every owner is gone but the stream is still Pending")),
                                };
                            }
                            std::thread::park_timeout(Duration::from_millis(2));
                        }
                    }
                }
            }
            clear_mode();
            Ok((ready, pend, wakes))
        }));
    }
    // writers
    let mut writers = vec![];
    if let Some(mut o) = uniq_ob {
        let wseed = mix(seed, 7);
        writers.push(std::thread::spawn(move || {
            set_free_mode(wseed, pm);
            for i in 1..=sets {
                Observable::set(&mut o, i as u64);
            }
            drop(o);
            clear_mode();
        }));
    } else {
        let ob = shared_ob.unwrap();
        for wi in 0..n_writers {
            let c = ob.clone();
            let wseed = mix(seed, 7 + wi as u64);
            let ctr = Arc::new(AtomicU64::new(0));
            let _ = ctr;
            writers.push(std::thread::spawn(move || {
                set_free_mode(wseed, pm);
                for _ in 0..sets {
                    // monotone values so that "never backwards" is checkable without a log
                    c.update(|v| *v += 1);
                }
                drop(c);
                clear_mode();
            }));
        }
        // the main handle goes last or first, at random
        if hold_owner {
            for w in writers.drain(..) {
                w.join().map_err(|_| ("C02", "writer thread panicked".to_string()))?;
            }
            writers_done.set();
            std::thread::sleep(Duration::from_micros(300));
            drop(ob);
        } else if rng.chance(1, 2) {
            drop(ob);
        } else {
            let wseed = mix(seed, 99);
            writers.push(std::thread::spawn(move || {
                set_free_mode(wseed, pm);
                std::thread::yield_now();
                drop(ob);
                clear_mode();
            }));
        }
    }
    for w in writers {
        w.join().map_err(|_| ("C02", "writer thread panicked".to_string()))?;
    }
    quiesce.set();
    let mut tot = (0, 0, 0);
    for t in sub_threads {
        let r = t.join().map_err(|_| ("C02", "subscriber thread panicked".to_string()))??;
        tot = (tot.0 + r.0, tot.1 + r.1, tot.2 + r.2);
    }
    Ok(tot)
}

/// the same round on the async-lock flavour (writers drive their futures with a park/unpark executor)
fn free_round_c02_async(seed: u64, pm: u64) -> Result<(u64, u64, u64), (&'static str, String)> {
    if STUCK_SEEN.load(AO::SeqCst) {
        return Err(("STUCK", "skipped: an earlier future of the async-lock flavour got stuck".into()));
    }
    install_hook();
    let mut rng = Rng::new(seed);
    let n_subs = rng.range(1, 3);
    let n_writers = rng.range(1, 2);
    let sets = if small() { rng.range(1, 4) } else { rng.range(1, 12) };
    let quiesce = Arc::new(Quiesce(AtomicBool::new(false)));
    let ob: SharedObservable<u64, AsyncLock> = SharedObservable::new_async(0u64);
    let mut sub_threads = vec![];
    for k in 0..n_subs {
        let mut s = block_on_park(ob.subscribe());
        let q = quiesce.clone();
        let sseed = mix(seed, 100 + k as u64);
        sub_threads.push(std::thread::spawn(move || -> Result<(u64, u64, u64), (&'static str, String)> {
            set_free_mode(sseed, pm);
            let (mut ready, mut pend, mut wakes) = (0u64, 0u64, 0u64);
            let mut last = 0u64;
            loop {
                let (flag, w) = pause_waker(true);
                let mut cx = Context::from_waker(&w);
                match std::pin::Pin::new(&mut s).poll_next(&mut cx) {
                    Poll::Ready(Some(v)) => {
                        ready += 1;
                        if v < last {
                            return bad("C16", format!("async subscriber {k} saw {v} after {last}: values went backwards"));
                        }
                        last = v;
                    }
                    Poll::Ready(None) => break,
                    Poll::Pending => {
                        pend += 1;
                        loop {
                            if flag.woken() {
                                wakes += 1;
                                break;
                            }
                            if q.get() {
                                if flag.woken() {
                                    wakes += 1;
                                    break;
                                }
                                let (flag2, w2) = pause_waker(false);
                                let mut cx2 = Context::from_waker(&w2);
                                let r = std::pin::Pin::new(&mut s).poll_next(&mut cx2);
                                let _ = flag2;
                                return match r {
                                    Poll::Ready(x) => bad("C02", format!("async subscriber {k}: lost wakeup - Pending, never woken, yet a later poll answers Ready({x:?})")),
                                    Poll::Pending => bad("C03", format!("async subscriber {k}: every owner is gone but the stream is still Pending")),
                                };
                            }
                            std::thread::park_timeout(Duration::from_millis(2));
                        }
                    }
                }
            }
            clear_mode();
            Ok((ready, pend, wakes))
        }));
    }
    let mut writers = vec![];
    for wi in 0..n_writers {
        let c = ob.clone();
        let wseed = mix(seed, 7 + wi as u64);
        writers.push(std::thread::spawn(move || {
            set_free_mode(wseed, pm);
            for _ in 0..sets {
                block_on_park(c.update(|v| *v += 1));
            }
            drop(c);
            clear_mode();
        }));
    }
    drop(ob);
    for w in writers {
        if w.join().is_err() {
            // release the subscribers before reporting
            quiesce.set();
            return Err(("STUCK", "an async writer did not finish (stuck future or panic)".to_string()));
        }
    }
    quiesce.set();
    let mut tot = (0, 0, 0);
    for t in sub_threads {
        let r = t.join().map_err(|_| ("C02", "subscriber thread panicked".to_string()))??;
        tot = (tot.0 + r.0, tot.1 + r.1, tot.2 + r.2);
    }
    Ok(tot)
}

pub fn run_free_c02(prop: &str, p: &Params, n: u64) -> Outcome {
    let seed = p.seed;
    let gen_name = "free-c02";
    let pts0 = POINTS_HIT.load(AO::Relaxed);
    let mut out = p.cases(gen_name, n, |i, out| {
        out.ev.evaluations += 1;
        let s = mix(seed, mix(hash_of(&gen_name), i));
        let asyncfl = i % 3 == 2;
        let r = if asyncfl { free_round_c02_async(s, 300) } else { free_round_c02(s, 300) };
        match r {
            Ok((ready, pend, wakes)) => {
                out.ev.count(if asyncfl { "free_rounds_async_lock" } else { "free_rounds_sync" });
                out.ev.add("free_polls_ready", ready);
                out.ev.add("free_polls_pending", pend);
                out.ev.add("free_wakes_observed", wakes);
                if pend > 0 {
                    out.ev.nontrivial(hash_of(&(s, ready, pend)));
                    if out.ev.samples.is_empty() {
                        out.ev.sample(json!({"free_running_round_seed": s, "flavour": if asyncfl {"async-lock"} else {"sync"},
                            "polls_ready": ready, "polls_pending": pend, "wakes_observed": wakes}));
                    }
                }
            }
            Err((vp, what)) if vp == "STUCK" || STUCK_SEEN.load(AO::SeqCst) => {
                if out.inconclusive.len() < 3 {
                    out.inconclusive.push(format!("free-running round {s}: {what}"))
                }
            }
            Err((vp, what)) => {
                if vp == prop || (asyncfl && prop == "C16") {
                    out.violations.push(Violation {
                        property: prop.to_string(),
                        case: json!({"gen": gen_name, "case": i, "seed": seed}),
                        history: vec![format!("free-running round ({}), round seed {s}", if asyncfl { "async-lock" } else { "sync" })],
                        what,
                    });
                } else {
                    out.ev.foreign += 1;
                    out.ev.count(&format!("foreign_divergence_{vp}"));
                }
            }
        }
    });
    out.ev.add("pause_points_passed_in_free_mode", POINTS_HIT.load(AO::Relaxed) - pts0);
    out
}

/// the last handles of one SharedObservable are dropped by different threads at the same instant
/// (spin barrier): exactly one of them must close, so the pending subscriber is woken and ends.
fn round_last_drops(seed: u64, pm: u64) -> Result<(usize, usize), String> {
    install_hook();
    let mut rng = Rng::new(seed);
    let n = rng.range(2, 3);
    let with_upgrade = rng.chance(1, 3);
    let inner = if small() { 4 } else { 20 };
    let mut checked = 0usize;
    for k in 0..inner {
        let ob = SharedObservable::new(0u64);
        let mut sub = ob.subscribe();
        let (r, flag) = poll_stream_once(&mut sub);
        if r != Poll::Pending {
            return Err(format!("[C01] fresh subscriber answered {r:?}"));
        }
        let weak = ob.downgrade();
        let gate = Arc::new(AtomicU64::new(0));
        let mut hs = vec![];
        let mut handles: Vec<SharedObservable<u64>> = (0..n - 1).map(|_| ob.clone()).collect();
        handles.push(ob);
        let total = handles.len() as u64 + with_upgrade as u64;
        for (t, h) in handles.into_iter().enumerate() {
            let gate = gate.clone();
            let tseed = mix(seed, (k * 8 + t) as u64);
            hs.push(std::thread::spawn(move || {
                set_free_mode(tseed, pm);
                gate.fetch_add(1, AO::SeqCst);
                while gate.load(AO::SeqCst) < total {
                    std::hint::spin_loop();
                }
                drop(h);
                clear_mode();
            }));
        }
        if with_upgrade {
            let gate = gate.clone();
            hs.push(std::thread::spawn(move || {
                gate.fetch_add(1, AO::SeqCst);
                while gate.load(AO::SeqCst) < total {
                    std::hint::spin_loop();
                }
                // a temporary owner created and dropped while the others go away
                drop(weak.upgrade());
            }));
        }
        for h in hs {
            h.join().map_err(|_| "thread panicked".to_string())?;
        }
        let (r2, _f) = poll_stream_once(&mut sub);
        if r2 != Poll::Ready(None) {
            // not ending is C03's matter; never having been woken on top of it is C02's
            let tags = if !flag.woken() { "[C02|C03]" } else { "[C03]" };
            return Err(format!(
                "{tags} {n} threads dropped the last {n} clones at the same instant{}: every owner is gone but the subscriber answers {r2:?} (waker woken = {})",
                if with_upgrade { " (and a fourth upgraded and dropped a weak reference)" } else { "" },
                flag.woken()
            ));
        }
        if !flag.woken() {
            return Err("[C02] the last clones were dropped concurrently: the stream ended but the waker of the Pending poll was never woken".into());
        }
        checked += 1;
    }
    Ok((checked, n + with_upgrade as usize))
}

/// The last owner goes away (or the state is closed by the unique observable's drop) while other threads are in
/// the middle of the subscriber API: next_now, next_ref_now, get, read, clone, a stream poll, an upgrade. The
/// functional verdict is taken at join (everybody ends, the last value stays readable); under ThreadSanitizer and
/// Miri the same round gives the data-race verdict for whatever the close touches without the readers' locks.
fn round_drop_vs_readers(seed: u64, pm: u64) -> Result<(usize, usize), String> {
    install_hook();
    let mut rng = Rng::new(seed);
    let inner = if small() { 3 } else { 12 };
    let mut events = 0usize;
    let mut nthreads = 0usize;
    for k in 0..inner {
        let unique = rng.chance(1, 3);
        let readers = rng.range(1, 3);
        nthreads = readers + 1;
        let mut uniq: Option<eyeball::Observable<u64>> = None;
        let mut owners: Vec<SharedObservable<u64>> = vec![];
        let mut subs: Vec<Subscriber<u64>> = vec![];
        let mut weak = None;
        if unique {
            let o = eyeball::Observable::new(5u64);
            for _ in 0..readers {
                subs.push(eyeball::Observable::subscribe(&o));
            }
            uniq = Some(o);
        } else {
            let o = SharedObservable::new(5u64);
            for _ in 0..readers {
                subs.push(o.subscribe());
            }
            weak = Some(o.downgrade());
            if rng.chance(1, 2) {
                owners.push(o.clone());
            }
            owners.push(o);
        }
        let gate = Arc::new(AtomicU64::new(0));
        let done = Arc::new(AtomicU64::new(0));
        let fin = Arc::new(AtomicU64::new(0));
        let total = readers as u64 + 1;
        let mut hs = vec![];
        for (t, mut sub) in subs.into_iter().enumerate() {
            let gate = gate.clone();
            let done = done.clone();
            let fin = fin.clone();
            let weak = weak.clone();
            let tseed = mix(seed, (k * 16 + t) as u64);
            hs.push(std::thread::spawn(move || -> Result<usize, String> {
                set_free_mode(tseed, pm);
                let mut r = Rng::new(tseed);
                let mut n = 0usize;
                // whatever happens, the others are not left waiting for this thread
                struct Fin(Arc<AtomicU64>, bool);
                impl Drop for Fin {
                    fn drop(&mut self) {
                        if !self.1 {
                            self.0.fetch_add(1, AO::SeqCst);
                        }
                    }
                }
                let mut fin_guard = Fin(fin.clone(), false);
                gate.fetch_add(1, AO::Relaxed);
                while gate.load(AO::Relaxed) < total {
                    std::hint::spin_loop();
                }
                // keep using the subscriber until the writer thread has finished, and a little longer
                let mut after = 0;
                while after < 20 {
                    if done.load(AO::Relaxed) == 1 {
                        after += 1;
                    }
                    n += 1;
                    match r.below(7) {
                        0 => {
                            let v = sub.next_now();
                            if v != 5 && v != 6 {
                                return Err(format!("[C01|C04] next_now handed out {v}, only 5 and 6 were ever stored"));
                            }
                        }
                        1 => {
                            let v = *sub.next_ref_now();
                            if v != 5 && v != 6 {
                                return Err(format!("[C01|C04] next_ref_now handed out {v}"));
                            }
                        }
                        2 => {
                            let _ = sub.get();
                        }
                        3 => {
                            let _ = *sub.read();
                        }
                        4 => {
                            let c = sub.clone();
                            drop(c);
                        }
                        5 => {
                            if let Some(w) = &weak {
                                drop(w.upgrade());
                            }
                        }
                        _ => {
                            let _ = poll_stream_once(&mut sub);
                        }
                    }
                }
                clear_mode();
                // wait until every reader has left its loop (another reader may still hold an upgraded handle,
                // which is an owner)
                fin.fetch_add(1, AO::SeqCst);
                fin_guard.1 = true;
                while fin.load(AO::SeqCst) < total - 1 {
                    std::thread::yield_now();
                }
                // everything is over: the stream ends, the last value is still readable
                sub.reset();
                let (r2, _f) = poll_stream_once(&mut sub);
                if r2 != Poll::Ready(None) {
                    return Err(format!("[C03] every owner is gone but a subscriber that was used during the drop answers {r2:?}"));
                }
                if sub.get() != 6 {
                    return Err(format!("[C03] after the end get() returns {}, the last value stored was 6", sub.get()));
                }
                Ok(n)
            }));
        }
        let wseed = mix(seed, (k * 16 + 15) as u64);
        let gate2 = gate.clone();
        let writer = std::thread::spawn(move || {
            set_free_mode(wseed, pm);
            gate2.fetch_add(1, AO::Relaxed);
            while gate2.load(AO::Relaxed) < total {
                std::hint::spin_loop();
            }
            if let Some(mut u) = uniq {
                eyeball::Observable::set(&mut u, 6);
                drop(u);
            } else {
                owners[0].set(6);
                drop(owners);
            }
            clear_mode();
        });
        writer.join().map_err(|_| "writer thread panicked".to_string())?;
        done.store(1, AO::Relaxed);
        for h in hs {
            match h.join() {
                Ok(Ok(n)) => events += n,
                Ok(Err(e)) => return Err(e),
                Err(_) => return Err("[C03|C04] a reader thread panicked while the last owner was dropped".into()),
            }
        }
    }
    Ok((events, nthreads))
}

// ---------------------------------------------------------------------------------------------
// C04 W1: register with unique values

#[derive(Clone, Debug)]
pub struct Rec {
    pub thread: usize,
    pub inv: u64,
    pub res: u64,
    /// 0 set, 1 get, 2 read, 3 set_if_not_eq, 4 set_if_hash_not_eq
    pub op: u8,
    pub arg: u64,
    pub ret: Option<u64>,
}

pub const CONTENDED: u64 = 1 << 40;

pub fn check_w1(recs: &[Rec], init: u64, final_value: u64) -> Result<(), String> {
    // writes: value -> (rec index, prev)
    let mut write_of: HashMap<u64, usize> = HashMap::new();
    let mut succ: HashMap<u64, u64> = HashMap::new();
    for (i, r) in recs.iter().enumerate() {
        let wrote = match r.op {
            0 => true,
            3 | 4 => r.ret.is_some(),
            _ => false,
        };
        if wrote {
            let prev = r.ret.unwrap();
            if prev == r.arg {
                return Err(format!("thread {} {}({}) returned Some({prev}): it stored although the value was equal", r.thread, opname(r.op), r.arg));
            }
            if write_of.insert(r.arg, i).is_some() {
                return Err(format!("value {} was stored by two operations (a conditional setter stored although the value was already there)", r.arg));
            }
            if let Some(other) = succ.insert(prev, r.arg) {
                return Err(format!("two writes ({} and {}) both returned the previous value {prev}: a write was lost or applied twice", other, r.arg));
            }
        }
    }
    // chain
    let mut pos: HashMap<u64, usize> = HashMap::new();
    pos.insert(init, 0);
    let mut cur = init;
    let mut n = 0;
    while let Some(nx) = succ.get(&cur) {
        n += 1;
        if pos.insert(*nx, n).is_some() {
            return Err(format!("the chain of previous values has a cycle at {nx}"));
        }
        cur = *nx;
    }
    if n != write_of.len() {
        return Err(format!("{} writes happened but only {n} are on the chain of previous values starting at the initial value", write_of.len()));
    }
    if cur != final_value {
        return Err(format!("the chain of previous values ends at {cur} but the final value is {final_value}"));
    }
    // real time among writes
    let mut ws: Vec<&Rec> = write_of.values().map(|i| &recs[*i]).collect();
    ws.sort_by_key(|r| r.res);
    let mut by_inv: Vec<&Rec> = ws.clone();
    by_inv.sort_by_key(|r| r.inv);
    let mut j = 0;
    let mut maxpos = 0usize;
    let mut maxval = init;
    for b in by_inv {
        while j < ws.len() && ws[j].res < b.inv {
            let pj = pos[&ws[j].arg];
            if pj > maxpos {
                maxpos = pj;
                maxval = ws[j].arg;
            }
            j += 1;
        }
        if pos[&b.arg] < maxpos {
            return Err(format!(
                "write of {} completed before write of {} was invoked, yet it comes later in the order of previous values",
                maxval, b.arg
            ));
        }
    }
    // reads (get/read, and conditional setters that returned None)
    for r in recs {
        let v = match r.op {
            1 | 2 => r.ret.unwrap(),
            3 | 4 if r.ret.is_none() => r.arg,
            _ => continue,
        };
        let Some(p) = pos.get(&v) else {
            return Err(format!("thread {} {} observed {v}, which was never the value", r.thread, opname(r.op)));
        };
        if *p > 0 {
            let w = &recs[write_of[&v]];
            if w.inv > r.res {
                return Err(format!("thread {} {} observed {v} before its write was invoked", r.thread, opname(r.op)));
            }
        }
        if let Some(s) = succ.get(&v) {
            let sw = &recs[write_of[s]];
            if sw.res < r.inv {
                return Err(format!(
                    "thread {} {} returned {v} although the write of its successor {s} had completed before the read was invoked (stale read)",
                    r.thread,
                    opname(r.op)
                ));
            }
        }
    }
    Ok(())
}

fn opname(op: u8) -> &'static str {
    ["set", "get", "read", "set_if_not_eq", "set_if_hash_not_eq"][op as usize]
}

/// Histories that contain conditional setters on contended (re-used) values: values are no longer
/// unique, so instead of the exact order we check what holds for every linearizable history:
/// a conditional setter never stores an equal value, a refused one saw a value somebody stored, and
/// previous values are conserved (every write consumes exactly one occurrence of its predecessor).
pub fn check_w1c(recs: &[Rec], init: u64, final_value: u64) -> Result<(), String> {
    let mut bag: HashMap<u64, i64> = HashMap::new();
    *bag.entry(init).or_insert(0) += 1;
    let mut first_inv: HashMap<u64, u64> = HashMap::new();
    for r in recs {
        let wrote = r.op == 0 || ((r.op == 3 || r.op == 4) && r.ret.is_some());
        if wrote {
            let prev = r.ret.unwrap();
            if (r.op == 3 || r.op == 4) && prev == r.arg {
                return Err(format!("thread {} {}({}) returned Some({prev}): it stored although the value was equal", r.thread, opname(r.op), r.arg));
            }
            *bag.entry(r.arg).or_insert(0) += 1;
            *bag.entry(prev).or_insert(0) -= 1;
            let e = first_inv.entry(r.arg).or_insert(r.inv);
            *e = (*e).min(r.inv);
        }
    }
    *bag.entry(final_value).or_insert(0) -= 1;
    if let Some((v, n)) = bag.iter().find(|(_, n)| **n != 0) {
        return Err(format!(
            "previous values are not conserved: value {v} was written/initial {} time(s) more than it was returned as a previous value or left as the final value (a write was lost or applied twice)",
            n
        ));
    }
    for r in recs {
        let v = match r.op {
            1 | 2 => r.ret.unwrap(),
            3 | 4 if r.ret.is_none() => r.arg,
            _ => continue,
        };
        if v == init {
            continue;
        }
        match first_inv.get(&v) {
            None => return Err(format!("thread {} {} observed {v}, which nobody stored", r.thread, opname(r.op))),
            Some(inv) if *inv > r.res => {
                return Err(format!("thread {} {} observed {v} before any write of it was invoked", r.thread, opname(r.op)))
            }
            _ => {}
        }
    }
    Ok(())
}

fn round_w1(seed: u64, pm: u64) -> Result<(usize, usize), String> {
    install_hook();
    let mut rng = Rng::new(seed);
    let threads = rng.range(2, 4);
    let ops = if small() { rng.range(4, 10) } else { rng.range(10, 80) };
    let contended_mode = rng.chance(1, 2);
    let ob = SharedObservable::new(0u64);
    let clock = Arc::new(Clock(AtomicU64::new(0)));
    let start = Arc::new(std::sync::Barrier::new(threads));
    let mut hs = vec![];
    for t in 0..threads {
        let c = ob.clone();
        let clock = clock.clone();
        let start = start.clone();
        let tseed = mix(seed, t as u64 + 1);
        hs.push(std::thread::spawn(move || {
            set_free_mode(tseed, pm);
            let mut rng = Rng::new(tseed);
            let mut log = Vec::with_capacity(ops);
            let mut ctr = 0u64;
            let mut contended = 0u64;
            start.wait();
            for _ in 0..ops {
                let k = if contended_mode { rng.below(10) } else { rng.below(7) };
                let inv = clock.tick();
                let (op, arg, ret) = match k {
                    0..=3 => {
                        ctr += 1;
                        let v = ((t as u64 + 1) << 20) | ctr;
                        (0u8, v, Some(c.set(v)))
                    }
                    4 | 5 => (1, 0, Some(c.get())),
                    6 => (2, 0, Some(*c.read())),
                    7 | 8 => {
                        contended += 1;
                        let v = CONTENDED + contended;
                        (3, v, c.set_if_not_eq(v))
                    }
                    _ => {
                        contended += 1;
                        let v = CONTENDED + contended;
                        (4, v, c.set_if_hash_not_eq(v))
                    }
                };
                let res = clock.tick();
                log.push(Rec { thread: t, inv, res, op, arg, ret });
            }
            clear_mode();
            log
        }));
    }
    let mut recs = vec![];
    for h in hs {
        recs.extend(h.join().map_err(|_| "worker panicked".to_string())?);
    }
    let fin = ob.get();
    let nrec = recs.len();
    if contended_mode {
        check_w1c(&recs, 0, fin).map(|_| (nrec, threads))
    } else {
        check_w1(&recs, 0, fin).map(|_| (nrec, threads))
    }
}

// ---------------------------------------------------------------------------------------------
// C04 W2: append-only list, read-modify-write through closures and write guards, subscribers

struct ListRead {
    who: String,
    inv: u64,
    res: u64,
    list: Vec<u64>,
}

fn round_w2(seed: u64, pm: u64) -> Result<(usize, usize), String> {
    install_hook();
    let mut rng = Rng::new(seed);
    let writers = rng.range(2, 3);
    let n_subs = rng.range(1, 2);
    let ops = if small() { rng.range(3, 8) } else { rng.range(8, 50) };
    let ob = SharedObservable::new(Vec::<u64>::new());
    let clock = Arc::new(Clock(AtomicU64::new(0)));
    let writers_done = Arc::new(Quiesce(AtomicBool::new(false)));
    let closed = Arc::new(Quiesce(AtomicBool::new(false)));
    let start = Arc::new(std::sync::Barrier::new(writers + n_subs));
    let mut whs = vec![];
    for t in 0..writers {
        let c = ob.clone();
        let clock = clock.clone();
        let start = start.clone();
        let tseed = mix(seed, t as u64 + 1);
        whs.push(std::thread::spawn(move || {
            set_free_mode(tseed, pm);
            let mut rng = Rng::new(tseed);
            let mut upd: Vec<(u64, u64, u64)> = vec![]; // id, inv, res
            let mut reads: Vec<ListRead> = vec![];
            start.wait();
            for i in 0..ops {
                let id = ((t as u64 + 1) << 20) | (i as u64 + 1);
                let inv = clock.tick();
                match rng.below(6) {
                    0 | 1 => {
                        c.update(|l| l.push(id));
                        upd.push((id, inv, clock.tick()));
                    }
                    2 => {
                        let mut g = c.write();
                        let mut l = (*g).clone();
                        l.push(id);
                        ObservableWriteGuard::set(&mut g, l);
                        drop(g);
                        upd.push((id, inv, clock.tick()));
                    }
                    3 => {
                        c.update_if(|l| {
                            l.push(id);
                            true
                        });
                        upd.push((id, inv, clock.tick()));
                    }
                    4 => {
                        let l = c.get();
                        reads.push(ListRead { who: format!("writer {t} get"), inv, res: clock.tick(), list: l });
                    }
                    _ => {
                        let l = c.read().clone();
                        reads.push(ListRead { who: format!("writer {t} read"), inv, res: clock.tick(), list: l });
                    }
                }
            }
            clear_mode();
            (upd, reads)
        }));
    }
    let mut shs = vec![];
    for k in 0..n_subs {
        let mut s = ob.subscribe();
        let clock = clock.clone();
        let done = writers_done.clone();
        let closed = closed.clone();
        let start = start.clone();
        let sseed = mix(seed, 50 + k as u64);
        shs.push(std::thread::spawn(move || -> Result<Vec<ListRead>, String> {
            set_free_mode(sseed, pm);
            let mut rng = Rng::new(sseed);
            let mut reads: Vec<ListRead> = vec![];
            let mut last: Option<Vec<u64>> = None;
            let mut polls_after_close = 0u32;
            start.wait();
            loop {
                if rng.chance(1, 4) {
                    let inv = clock.tick();
                    let l = s.next_now();
                    reads.push(ListRead { who: format!("subscriber {k} next_now"), inv, res: clock.tick(), list: l.clone() });
                    last = Some(l);
                    continue;
                }
                let (flag, w) = pause_waker(true);
                let mut cx = Context::from_waker(&w);
                let inv = clock.tick();
                let r = std::pin::Pin::new(&mut s).poll_next(&mut cx);
                let res = clock.tick();
                match r {
                    Poll::Ready(Some(l)) => {
                        reads.push(ListRead { who: format!("subscriber {k} next"), inv, res, list: l.clone() });
                        last = Some(l);
                    }
                    Poll::Ready(None) => break,
                    Poll::Pending => loop {
                        if flag.woken() {
                            break;
                        }
                        if done.get() && !flag.woken() {
                            // the writers are finished and nothing is new for this subscriber: what it
                            // was handed last must be the final value
                            let fin = s.get();
                            if let Some(l) = &last {
                                if *l != fin {
                                    return Err(format!(
                                        "subscriber {k} is Pending after the writers finished, but the last value it was handed has {} items, the final value {} (an update was lost for it)",
                                        l.len(),
                                        fin.len()
                                    ));
                                }
                            } else if !fin.is_empty() {
                                return Err(format!("subscriber {k} is Pending after the writers finished and never saw any of the {} updates", fin.len()));
                            }
                            // wait for the close now (whether the close wakes this waker is C02's
                            // business, not C04's: do not hang on it)
                            while !flag.woken() && !closed.get() {
                                std::thread::park_timeout(Duration::from_millis(2));
                            }
                            if closed.get() {
                                polls_after_close += 1;
                                if polls_after_close >= 3 {
                                    // every owner is gone and the stream still answers Pending: whether it ends is
                                    // C03's business; this round's questions are answered, do not spin on it
                                    clear_mode();
                                    return Ok(reads);
                                }
                            }
                            break;
                        }
                        std::thread::park_timeout(Duration::from_millis(1));
                    },
                }
            }
            clear_mode();
            Ok(reads)
        }));
    }
    let mut updates: Vec<(u64, u64, u64)> = vec![];
    let mut reads: Vec<ListRead> = vec![];
    let mut per_thread: Vec<Vec<u64>> = vec![];
    for h in whs {
        let (u, r) = h.join().map_err(|_| "writer panicked".to_string())?;
        per_thread.push(u.iter().map(|x| x.0).collect());
        updates.extend(u);
        reads.extend(r);
    }
    let fin = ob.get();
    writers_done.set();
    // give the subscribers a moment to run their final-value check, then close
    std::thread::sleep(Duration::from_micros(300));
    drop(ob);
    closed.set();
    let mut sub_reads: Vec<Vec<ListRead>> = vec![];
    for h in shs {
        sub_reads.push(h.join().map_err(|_| "subscriber panicked".to_string())??);
    }
    // ---- checks
    let index: HashMap<u64, usize> = fin.iter().enumerate().map(|(i, v)| (*v, i)).collect();
    if index.len() != fin.len() {
        return Err("the final list contains an id twice".into());
    }
    for (id, _, _) in &updates {
        if !index.contains_key(id) {
            return Err(format!("update {id:#x} is missing from the final list: a closure's effect was lost"));
        }
    }
    if fin.len() != updates.len() {
        return Err(format!("final list has {} items, {} updates completed", fin.len(), updates.len()));
    }
    for ids in &per_thread {
        for w in ids.windows(2) {
            if index[&w[0]] > index[&w[1]] {
                return Err(format!("updates {:#x} and {:#x} of one thread appear in the wrong order", w[0], w[1]));
            }
        }
    }
    let mut by_res = updates.clone();
    by_res.sort_by_key(|u| u.2);
    let mut by_inv = updates.clone();
    by_inv.sort_by_key(|u| u.1);
    let mut j = 0;
    let mut maxidx: Option<usize> = None;
    for b in &by_inv {
        while j < by_res.len() && by_res[j].2 < b.1 {
            let ix = index[&by_res[j].0];
            maxidx = Some(maxidx.map_or(ix, |m| m.max(ix)));
            j += 1;
        }
        if let Some(m) = maxidx {
            if index[&b.0] < m {
                return Err(format!("update {:#x} was invoked after an update at list position {m} had completed, but sits before it", b.0));
            }
        }
    }
    let res_sorted: Vec<u64> = by_res.iter().map(|u| u.2).collect();
    let inv_sorted: Vec<u64> = by_inv.iter().map(|u| u.1).collect();
    let check_read = |r: &ListRead| -> Result<(), String> {
        let n = r.list.len();
        if n > fin.len() || r.list[..] != fin[..n] {
            return Err(format!("{} returned a list that is not a prefix of the final list", r.who));
        }
        let completed_before = res_sorted.partition_point(|x| *x < r.inv);
        let invoked_before = inv_sorted.partition_point(|x| *x < r.res);
        if n < completed_before {
            return Err(format!("{} returned {n} items although {completed_before} updates had completed before it was invoked (stale)", r.who));
        }
        if n > invoked_before {
            return Err(format!("{} returned {n} items although only {invoked_before} updates had been invoked when it returned", r.who));
        }
        Ok(())
    };
    let mut nreads = 0;
    for r in &reads {
        check_read(r)?;
        nreads += 1;
    }
    for rs in &sub_reads {
        let mut lastn = 0;
        for r in rs {
            check_read(r)?;
            nreads += 1;
            if r.list.len() < lastn {
                return Err(format!("{} went backwards: {} items after {lastn}", r.who, r.list.len()));
            }
            lastn = r.list.len();
        }
    }
    Ok((updates.len() + nreads, writers + n_subs))
}

// ---------------------------------------------------------------------------------------------
// C04 W3: guards exclude

fn spin(us: u64) {
    let t = Instant::now();
    while t.elapsed() < Duration::from_micros(us) {
        std::hint::spin_loop();
    }
}

fn round_w3(seed: u64, pm: u64) -> Result<(usize, usize), String> {
    install_hook();
    let mut rng = Rng::new(seed);
    let writers = rng.range(1, 2);
    let rounds = if small() { rng.range(2, 3) } else { rng.range(3, 12) };
    let write_guard = rng.chance(1, 2);
    let ob = SharedObservable::new(0u64);
    let clock = Arc::new(Clock(AtomicU64::new(0)));
    let stop = Arc::new(AtomicBool::new(false));
    let mut whs = vec![];
    for t in 0..writers {
        let c = ob.clone();
        let clock = clock.clone();
        let stop = stop.clone();
        let tseed = mix(seed, t as u64 + 1);
        whs.push(std::thread::spawn(move || {
            set_free_mode(tseed, pm);
            let mut log: Vec<(u64, u64, bool)> = vec![]; // inv, res, is_write
            let mut i = 0u64;
            let mut rng = Rng::new(tseed);
            while !stop.load(AO::SeqCst) && log.len() < if small() { 60 } else { 4000 } {
                i += 1;
                let inv = clock.tick();
                let w = rng.chance(2, 3);
                if w {
                    c.set(((t as u64 + 1) << 20) | i);
                } else {
                    let _ = c.get();
                }
                log.push((inv, clock.tick(), w));
            }
            clear_mode();
            log
        }));
    }
    let holder = ob.clone();
    let probe = ob.clone();
    let mut hsub = ob.subscribe();
    let sub_guard = rng.chance(1, 2);
    let mut holds: Vec<(u64, u64)> = vec![];
    set_free_mode(mix(seed, 77), pm);
    let mut err: Option<String> = None;
    for _ in 0..rounds {
        if write_guard {
            let mut g = holder.write();
            let t2 = clock.tick();
            if probe.try_read().is_ok() || probe.try_write().is_ok() {
                err = Some("try_read/try_write succeeded while a write guard is alive".into());
            }
            let v1 = *g;
            spin(40);
            ObservableWriteGuard::set(&mut g, v1 + (1 << 50));
            spin(20);
            let v2 = *g;
            let t3 = clock.tick();
            drop(g);
            if v2 != v1 + (1 << 50) {
                err = Some(format!("the value changed under a write guard: {v1:#x} + 2^50 != {v2:#x}"));
            }
            holds.push((t2, t3));
        } else if sub_guard {
            let g = if rounds % 2 == 0 { hsub.read() } else { hsub.next_ref_now() };
            let t2 = clock.tick();
            let v1 = *g;
            if probe.try_write().is_ok() {
                err = Some("try_write succeeded while a subscriber's read guard is alive".into());
            }
            spin(60);
            let v2 = *g;
            let t3 = clock.tick();
            drop(g);
            if v1 != v2 {
                err = Some(format!("the value changed while a subscriber's read guard was alive: {v1:#x} -> {v2:#x}"));
            }
            holds.push((t2, t3));
        } else {
            let g = holder.read();
            let t2 = clock.tick();
            let v1 = *g;
            if probe.try_write().is_ok() {
                err = Some("try_write succeeded while a read guard is alive".into());
            }
            spin(60);
            let v2 = *g;
            let t3 = clock.tick();
            drop(g);
            if v1 != v2 {
                err = Some(format!("the value changed while a read guard was alive: {v1:#x} -> {v2:#x}"));
            }
            holds.push((t2, t3));
        }
        std::thread::yield_now();
        if err.is_some() {
            break;
        }
    }
    clear_mode();
    stop.store(true, AO::SeqCst);
    let mut n = 0;
    for h in whs {
        let log = h.join().map_err(|_| "writer panicked".to_string())?;
        n += log.len();
        for (inv, res, is_write) in log {
            for (t2, t3) in &holds {
                if inv > *t2 && res < *t3 && (is_write || write_guard) {
                    return Err(format!(
                        "a {} was invoked and completed (clock {inv}..{res}) entirely while a {} guard was alive (clock {t2}..{t3})",
                        if is_write { "set" } else { "get" },
                        if write_guard { "write" } else { "read" }
                    ));
                }
            }
        }
    }
    if let Some(e) = err {
        return Err(e);
    }
    Ok((n + holds.len(), writers + 1))
}

// ---------------------------------------------------------------------------------------------
// async flavour under threads: each thread drives its futures with a park/unpark executor

/// Drives a future on the calling thread, parking between polls. A future that is neither ready nor
/// woken for 8 s of wall-clock time is reported as STUCK - which is an INCONCLUSIVE outcome for the
/// round (a deadline is never a verdict), but it must not hang the whole check.
use crate::engine_thr::ASYNC_STUCK as STUCK_SEEN;

fn try_block_on_park<F: Future>(f: F) -> Result<F::Output, String> {
    if STUCK_SEEN.load(AO::SeqCst) {
        return Err("STUCK: skipped, an earlier future of the async-lock flavour got stuck".into());
    }
    let mut f = pin!(f);
    loop {
        let (flag, w) = pause_waker(true);
        let mut cx = Context::from_waker(&w);
        if let Poll::Ready(v) = f.as_mut().poll(&mut cx) {
            return Ok(v);
        }
        let t0 = Instant::now();
        while !flag.woken() {
            std::thread::park_timeout(Duration::from_millis(2));
            if t0.elapsed() > Duration::from_secs(8) || STUCK_SEEN.load(AO::SeqCst) {
                STUCK_SEEN.store(true, AO::SeqCst);
                return Err("STUCK: a future of the async-lock flavour was neither ready nor woken for 8 s".into());
            }
        }
    }
}

fn block_on_park<F: Future>(f: F) -> F::Output {
    match try_block_on_park(f) {
        Ok(v) => v,
        Err(e) => panic!("{e}"),
    }
}

fn round_w1_async(seed: u64, pm: u64) -> Result<(usize, usize), String> {
    if STUCK_SEEN.load(AO::SeqCst) {
        return Err("STUCK: skipped, an earlier future of the async-lock flavour got stuck".into());
    }
    install_hook();
    let mut rng = Rng::new(seed);
    let threads = rng.range(2, 4);
    let ops = if small() { rng.range(3, 8) } else { rng.range(10, 60) };
    let contended_mode = rng.chance(1, 2);
    let ob: SharedObservable<u64, AsyncLock> = SharedObservable::new_async(0u64);
    let clock = Arc::new(Clock(AtomicU64::new(0)));
    let start = Arc::new(std::sync::Barrier::new(threads + 1));
    let mut hs = vec![];
    for t in 0..threads {
        let c = ob.clone();
        let clock = clock.clone();
        let start = start.clone();
        let tseed = mix(seed, t as u64 + 1);
        hs.push(std::thread::spawn(move || {
            set_free_mode(tseed, pm);
            let mut rng = Rng::new(tseed);
            let mut log = Vec::with_capacity(ops);
            let mut ctr = 0u64;
            let mut contended = 0u64;
            start.wait();
            for _ in 0..ops {
                let k = if contended_mode { rng.below(10) } else { rng.below(7) };
                let inv = clock.tick();
                let (op, arg, ret) = match k {
                    0..=3 => {
                        ctr += 1;
                        let v = ((t as u64 + 1) << 20) | ctr;
                        (0u8, v, Some(block_on_park(c.set(v))))
                    }
                    4 | 5 => (1, 0, Some(block_on_park(c.get()))),
                    6 => (2, 0, Some(*block_on_park(c.read()))),
                    7 | 8 => {
                        contended += 1;
                        let v = CONTENDED + contended;
                        (3, v, block_on_park(c.set_if_not_eq(v)))
                    }
                    _ => {
                        contended += 1;
                        let v = CONTENDED + contended;
                        (4, v, block_on_park(c.set_if_hash_not_eq(v)))
                    }
                };
                let res = clock.tick();
                log.push(Rec { thread: t, inv, res, op, arg, ret });
            }
            clear_mode();
            log
        }));
    }
    // one subscriber on its own thread: values never go backwards in chain order, ends with None
    let mut sub = block_on_park(ob.subscribe());
    let sub_thread = std::thread::spawn(move || {
        let mut seen = vec![];
        loop {
            match block_on_park(sub.next()) {
                Some(v) => seen.push(v),
                None => break,
            }
        }
        (seen, block_on_park(sub.get()))
    });
    start.wait();
    let mut recs = vec![];
    for h in hs {
        recs.extend(h.join().map_err(|_| "STUCK or panicked: an async worker did not finish".to_string())?);
    }
    let fin = block_on_park(ob.get());
    drop(ob);
    let (seen, last) = sub_thread.join().map_err(|_| "subscriber panicked".to_string())?;
    let nrec = recs.len();
    if contended_mode {
        check_w1c(&recs, 0, fin)?;
    } else {
        check_w1(&recs, 0, fin)?;
    }
    if last != fin {
        return Err(format!("async subscriber reads {last} after the end, final value {fin}"));
    }
    // subscriber order: positions along the chain never decrease
    let mut succ: HashMap<u64, u64> = HashMap::new();
    for r in &recs {
        if r.op == 0 || ((r.op == 3 || r.op == 4) && r.ret.is_some()) {
            succ.insert(r.ret.unwrap(), r.arg);
        }
    }
    let mut pos: HashMap<u64, usize> = HashMap::new();
    let mut cur = 0u64;
    let mut n = 0;
    pos.insert(0, 0);
    while let Some(nx) = succ.get(&cur) {
        if contended_mode || n > recs.len() {
            break; // values are re-used: no exact order to compare with
        }
        n += 1;
        pos.insert(*nx, n);
        cur = *nx;
    }
    let mut lastp = 0;
    for v in &seen {
        if contended_mode {
            break; // no exact order with re-used values
        }
        let Some(p) = pos.get(v) else { return Err(format!("async subscriber saw {v}, which was never written")) };
        if *p < lastp {
            return Err(format!("async subscriber saw {v} (position {p}) after position {lastp}: went backwards"));
        }
        // values are unique here: next() handing out the same value twice means it was ready again
        // without an update the subscriber had not observed
        if *p == lastp && *p != 0 {
            return Err(format!("[C01|C16] async subscriber was handed {v} twice by consecutive next() calls although no update happened in between"));
        }
        lastp = *p;
    }
    Ok((nrec + seen.len(), threads + 1))
}

/// Many waiting tasks at once: a few poller threads multiplex dozens of subscribers, each polled with its own
/// waker (more than 32 and more than 64 wakers registered at the same time), while writer threads store
/// unique values. Oracle at quiescence (writers joined): a subscriber that is Pending and whose waker was
/// never woken must have nothing to deliver; afterwards the last owner goes away and every waiter must be
/// woken and end.
fn round_many_waiters(seed: u64, pm: u64) -> Result<(usize, usize), String> {
    install_hook();
    let mut rng = Rng::new(seed);
    let writers = rng.range(1, 3);
    let pollers = rng.range(1, 3);
    let per_poller = if small() { rng.range(2, 5) } else { rng.range(8, 40) };
    let ops = if small() { rng.range(2, 5) } else { rng.range(3, 30) };
    let ob = SharedObservable::new(0u64);
    let writers_done = Arc::new(Quiesce(AtomicBool::new(false)));
    let checked = Arc::new(AtomicU64::new(0));
    let closed = Arc::new(Quiesce(AtomicBool::new(false)));
    let start = Arc::new(std::sync::Barrier::new(writers + pollers));
    let mut phs = vec![];
    for k in 0..pollers {
        let mut subs: Vec<Subscriber<u64>> = (0..per_poller).map(|_| ob.subscribe()).collect();
        let done = writers_done.clone();
        let closed = closed.clone();
        let checked = checked.clone();
        let start = start.clone();
        let sseed = mix(seed, 70 + k as u64);
        phs.push(std::thread::spawn(move || -> Result<usize, String> {
            set_free_mode(sseed, pm);
            let n = subs.len();
            // per subscriber: flag of its last Pending poll (None = must be polled), ended, last value
            let mut flags: Vec<Option<Arc<FlagWaker>>> = vec![None; n];
            let mut ended = vec![false; n];
            let mut last: Vec<Option<u64>> = vec![None; n];
            let mut events = 0usize;
            let mut quiescent_checked = false;
            let deadline = Instant::now() + Duration::from_secs(20);
            start.wait();
            loop {
                let mut progressed = false;
                for i in 0..n {
                    if ended[i] {
                        continue;
                    }
                    let due = match &flags[i] {
                        None => true,
                        Some(f) => f.woken(),
                    };
                    if !due {
                        continue;
                    }
                    progressed = true;
                    let (flag, w) = flag_waker_unpark();
                    let mut cx = Context::from_waker(&w);
                    events += 1;
                    match std::pin::Pin::new(&mut subs[i]).poll_next(&mut cx) {
                        Poll::Ready(Some(v)) => {
                            if let Some(l) = last[i] {
                                if l == v {
                                    return Err(format!("[C01] poller {k}: subscriber {i} was handed the value {v:#x} twice in a row (unique values are stored)"));
                                }
                            }
                            last[i] = Some(v);
                            flags[i] = None;
                        }
                        Poll::Ready(None) => ended[i] = true,
                        Poll::Pending => flags[i] = Some(flag),
                    }
                }
                if ended.iter().all(|e| *e) {
                    break;
                }
                if progressed {
                    continue;
                }
                // everything is Pending and nothing was woken
                if done.get() && !quiescent_checked {
                    // the writers have returned from their last call: whoever is Pending without a wake now has
                    // nothing to deliver - poll once more with the same expectation
                    let fin = subs[0].get();
                    for i in 0..n {
                        if ended[i] {
                            continue;
                        }
                        let f = flags[i].as_ref().unwrap();
                        if f.woken() {
                            continue;
                        }
                        let (flag, w) = flag_waker_unpark();
                        let mut cx = Context::from_waker(&w);
                        events += 1;
                        match std::pin::Pin::new(&mut subs[i]).poll_next(&mut cx) {
                            Poll::Pending => {
                                flags[i] = Some(flag);
                                if let Some(l) = last[i] {
                                    if l != fin {
                                        return Err(format!("[C04] poller {k}: subscriber {i} is Pending after the writers finished, it was last handed {l:#x} but the final value is {fin:#x}"));
                                    }
                                }
                            }
                            Poll::Ready(Some(v)) => {
                                return Err(format!(
                                    "[C02|C04] poller {k}: subscriber {i} of {n} was Pending, its waker was never woken, yet the value {v:#x} was waiting for it after the writers had finished (lost wakeup)"
                                ));
                            }
                            Poll::Ready(None) => return Err(format!("[C03] poller {k}: subscriber {i} ended while owners exist")),
                        }
                    }
                    quiescent_checked = true;
                    checked.fetch_add(1, AO::SeqCst);
                    continue;
                }
                if closed.get() {
                    // every owner is gone (the drop has returned): a Pending waiter must have been woken
                    for i in 0..n {
                        if !ended[i] && !flags[i].as_ref().unwrap().woken() {
                            return Err(format!("[C02] poller {k}: subscriber {i} of {n} was Pending when the last owner went away and its waker was never woken"));
                        }
                    }
                }
                if Instant::now() > deadline {
                    return Err("STUCK: many-waiters poller exceeded its wall-clock watchdog".into());
                }
                std::thread::park_timeout(Duration::from_millis(1));
            }
            clear_mode();
            Ok(events)
        }));
    }
    let mut whs = vec![];
    for t in 0..writers {
        let c = ob.clone();
        let start = start.clone();
        let tseed = mix(seed, t as u64 + 1);
        whs.push(std::thread::spawn(move || {
            set_free_mode(tseed, pm);
            let mut rng = Rng::new(tseed);
            start.wait();
            for i in 0..ops {
                let id = ((t as u64 + 1) << 20) | (i as u64 + 1);
                match rng.below(3) {
                    0 => {
                        c.set(id);
                    }
                    1 => c.update(|v| *v = id),
                    _ => {
                        c.set_if_not_eq(id);
                    }
                }
                if rng.chance(1, 3) {
                    std::thread::sleep(Duration::from_micros(rng.below(300) as u64));
                }
            }
            clear_mode();
        }));
    }
    for h in whs {
        h.join().map_err(|_| "a writer thread panicked".to_string())?;
    }
    writers_done.set();
    // wait until every poller has done its quiescence check (bounded), then drop the last owner
    let t0 = Instant::now();
    while checked.load(AO::SeqCst) < pollers as u64 && t0.elapsed() < Duration::from_secs(20) {
        if phs.iter().any(|h| h.is_finished()) {
            break;
        }
        std::thread::sleep(Duration::from_micros(200));
    }
    drop(ob);
    closed.set();
    let mut events = 0;
    let mut err = None;
    for h in phs {
        match h.join() {
            Ok(Ok(e)) => events += e,
            Ok(Err(e)) => {
                if err.is_none() || !e.starts_with("STUCK") {
                    err = Some(e)
                }
            }
            Err(_) => err = Some("a poller thread panicked".into()),
        }
    }
    match err {
        Some(e) => Err(e),
        None => Ok((events, writers + pollers)),
    }
}

// ---------------------------------------------------------------------------------------------

pub fn run_rounds(
    prop: &str,
    p: &Params,
    gen_name: &'static str,
    n: u64,
    f: fn(u64, u64) -> Result<(usize, usize), String>,
) -> Outcome {
    let seed = p.seed;
    // thread-heavy rounds: do not oversubscribe
    let mut p2 = p.clone();
    p2.threads = (p.threads / 3).max(1);
    let pts0 = POINTS_HIT.load(AO::Relaxed);
    let mut out = p2.cases(gen_name, n, |i, out| {
        out.ev.evaluations += 1;
        let s = mix(seed, mix(hash_of(&gen_name), i));
        let pm = [0u64, 100, 400, 800][(i % 4) as usize];
        match f(s, pm) {
            Ok((events, threads)) => {
                out.ev.add(&format!("{gen_name}_recorded_events"), events as u64);
                out.ev.add(&format!("{gen_name}_threads"), threads as u64);
                out.ev.nontrivial(hash_of(&(gen_name, s, events)));
                if out.ev.samples.len() < 2 {
                    out.ev.sample(json!({"workload": gen_name, "round_seed": s, "threads": threads, "recorded_events": events, "yield_per_mille": pm}));
                }
            }
            Err(what) if what.starts_with("STUCK") || STUCK_SEEN.load(AO::SeqCst) => {
                if out.inconclusive.len() < 3 {
                    out.inconclusive.push(format!("round {gen_name} {s}: {what}"))
                }
            }
            Err(what) => {
                // an error may name the properties it belongs to: "[C06|C08] ..."
                let mine = match what.strip_prefix('[').and_then(|r| r.split_once(']')) {
                    Some((tags, _)) => tags.split('|').any(|t| t == prop),
                    None => true,
                };
                if mine {
                    out.violations.push(Violation {
                        property: prop.to_string(),
                        case: json!({"gen": gen_name, "case": i, "seed": seed}),
                        history: vec![format!("free-running round {gen_name}, round seed {s}, yield per mille {pm}")],
                        what,
                    })
                } else {
                    out.ev.foreign += 1;
                    out.ev.count("foreign_divergence_in_round");
                }
            }
        }
    });
    out.ev.add("pause_points_passed_in_free_mode", POINTS_HIT.load(AO::Relaxed) - pts0);
    out
}

fn sched_budget(p: &Params, quick: usize, thorough: usize) -> usize {
    if let Some(m) = p.max_schedules {
        return m.max(1);
    }
    match p.san_cases {
        Some(c) => (c as usize).clamp(1, quick),
        None => {
            if p.thorough {
                thorough
            } else {
                quick
            }
        }
    }
}

fn want(p: &Params, part: &str) -> bool {
    p.part == "all" || p.part == part
}

/// C20 across threads: the races around the last owner with a drop-counted payload (the memory verdict for
/// the same schedules comes from the Miri / TSan / ASan passes of the driver)
pub fn run_c20_threads(p: &Params) -> Outcome {
    run_directed("C20", C20_SCENS, p, sched_budget(p, 150, 1200))
}

pub fn run_c01(p: &Params) -> Outcome {
    let mut out = Outcome::default();
    if want(p, "seq") {
        out.merge(crate::runners_obs::run_c01(p));
    }
    if want(p, "threads") {
        // subscribe() racing with write accesses that do not notify
        out.merge(run_directed("C01", C01_SCENS, p, sched_budget(p, 200, 1500)));
    }
    out
}

pub fn run_c02(p: &Params) -> Outcome {
    let mut out = Outcome::default();
    if want(p, "seq") {
        out.merge(crate::runners_obs::run_c02_seq(p));
    }
    if want(p, "threads") {
        out.merge(run_directed("C02", C02_SCENS, p, sched_budget(p, 400, 3000)));
        out.merge(run_free_c02("C02", p, p.n(1_500, 40_000)));
        out.merge(run_rounds("C02", p, "last-drops-at-once", p.n(400, 10_000), round_last_drops));
        out.merge(run_rounds("C02", p, "many-waiters", p.n(300, 8_000), round_many_waiters));
    }
    out
}

pub fn run_c03(p: &Params) -> Outcome {
    let mut out = Outcome::default();
    if want(p, "seq") {
        out.merge(crate::runners_obs::run_c03_seq(p));
    }
    if want(p, "threads") {
        out.merge(run_directed("C03", C03_SCENS, p, sched_budget(p, 400, 3000)));
        out.merge(run_free_c02("C03", p, p.n(1_000, 30_000)));
        out.merge(run_rounds("C03", p, "last-drops-at-once", p.n(400, 10_000), round_last_drops));
        out.merge(run_rounds("C03", p, "drop-vs-readers", p.n(300, 8_000), round_drop_vs_readers));
    }
    out
}

pub fn run_c04(p: &Params) -> Outcome {
    let mut out = Outcome::default();
    // the lock-exclusion invariant is evaluated by the director in every scenario
    let all: Vec<Scen> = C04_GUARD_SCENS.iter().chain(C01_SCENS.iter()).chain(C02_SCENS.iter()).chain(C03_SCENS[..6].iter()).copied().collect();
    out.merge(run_directed("C04", &all, p, sched_budget(p, 200, 1500)));
    out.merge(run_rounds("C04", p, "w1-register", p.n(1_500, 60_000), round_w1));
    out.merge(run_rounds("C04", p, "w2-append-list", p.n(800, 30_000), round_w2));
    out.merge(run_rounds("C04", p, "w3-guards", p.n(600, 20_000), round_w3));
    // the async-lock flavour is a SharedObservable, too
    out.merge(run_rounds("C04", p, "w1-register-async", p.n(600, 20_000), round_w1_async));
    out.merge(run_rounds("C04", p, "many-waiters", p.n(300, 8_000), round_many_waiters));
    out.merge(run_rounds("C04", p, "drop-vs-readers", p.n(300, 8_000), round_drop_vs_readers));
    out
}

pub fn run_c16_threads(p: &Params) -> Outcome {
    run_rounds("C16", p, "w1-register-async", p.n(600, 20_000), round_w1_async)
}

pub fn run_c16(p: &Params) -> Outcome {
    let mut out = Outcome::default();
    if want(p, "seq") {
        out.merge(crate::runners_obs::run_c16(p));
    }
    if want(p, "threads") {
        out.merge(run_c16_threads(p));
    }
    out
}

// ---------------------------------------------------------------------------------------------
// C08 across threads: the vector lives on one thread, every subscriber stream on its own
// park/unpark thread (this is what `unsafe impl Send for ReusableBoxRecvFuture` promises to allow).

pub fn round_c08_threads(seed: u64, pm: u64) -> Result<(usize, usize), String> {
    use eyeball_im::{ObservableVector, VectorDiff};
    use imbl::Vector;
    install_hook();
    let mut rng = Rng::new(seed);
    let cap = *rng.pick(&[1usize, 2, 4, 16]);
    let n_subs = rng.range(1, 3);
    let ops = if small() { rng.range(3, 10) } else { rng.range(5, 120) };
    let mut ob: ObservableVector<u64> = ObservableVector::with_capacity(cap);
    ob.append((0..rng.below(4) as u64).collect());
    let quiesce = Arc::new(Quiesce(AtomicBool::new(false)));
    let writer_done = Arc::new(Quiesce(AtomicBool::new(false)));
    let fin_slot: Slot<Vector<u64>> = slot();
    let mut hs = vec![];
    for k in 0..n_subs {
        let sub = ob.subscribe();
        let batched = rng.chance(1, 2);
        // a third of the subscribers watch through an adapter (filter / sort / tail): what they rebuild must be the
        // adapter's view of what the vector holds (C13 for the batched flavour, the adapter's own property otherwise)
        let adapter = if rng.chance(1, 3) { rng.range(1, 3) } else { 0 };
        let q = quiesce.clone();
        let wd = writer_done.clone();
        let fs = fin_slot.clone();
        let sseed = mix(seed, 10 + k as u64);
        hs.push(std::thread::spawn(move || -> Result<(Vector<u64>, usize, usize, usize), String> {
            set_free_mode(sseed, pm);
            use eyeball_im_util::vector::{VectorObserverExt, VectorSubscriberExt};
            let mut items = 0usize;
            let mut resets = 0usize;
            type DU = std::pin::Pin<Box<dyn Stream<Item = VectorDiff<u64>> + Send>>;
            type DB = std::pin::Pin<Box<dyn Stream<Item = Vec<VectorDiff<u64>>> + Send>>;
            enum St {
                U(DU),
                B(DB),
            }
            let view = move |v: &Vector<u64>| -> Vector<u64> {
                match adapter {
                    0 => v.clone(),
                    1 => v.iter().filter(|x| **x % 2 == 0).copied().collect(),
                    // (no Sort here: its Truncate arm is the known finding F6, which the adapter engine scopes)
                    2 => v.iter().take(3).copied().collect(),
                    _ => v.iter().skip(v.len().saturating_sub(4)).copied().collect(),
                }
            };
            let (mut replica, mut st): (Vector<u64>, St) = match (batched, adapter) {
                (false, 0) => (sub.values(), St::U(Box::pin(sub.into_stream()))),
                (true, 0) => (sub.values(), St::B(Box::pin(sub.into_batched_stream()))),
                (false, 1) => {
                    let (v, s) = sub.filter(|x: &u64| *x % 2 == 0);
                    (v, St::U(Box::pin(s)))
                }
                (true, 1) => {
                    let (v, s) = sub.batched().filter(|x: &u64| *x % 2 == 0);
                    (v, St::B(Box::pin(s)))
                }
                (false, 2) => {
                    let (v, s) = sub.head(3);
                    (v, St::U(Box::pin(s)))
                }
                (true, 2) => {
                    let (v, s) = sub.batched().head(3);
                    (v, St::B(Box::pin(s)))
                }
                (false, _) => {
                    let (v, s) = sub.tail(4);
                    (v, St::U(Box::pin(s)))
                }
                (true, _) => {
                    let (v, s) = sub.batched().tail(4);
                    (v, St::B(Box::pin(s)))
                }
            };
            let tags_view = match (batched, adapter) {
                (_, 0) => "[C06]",
                (true, 1) => "[C06|C10|C13]",
                (true, 2) => "[C06|C09|C13]",
                (true, _) => "[C06|C09|C13]",
                (false, 1) => "[C06|C10]",
                (false, 2) => "[C06|C09]",
                (false, _) => "[C06|C09]",
            };
            loop {
                let (flag, w) = pause_waker(true);
                let mut cx = Context::from_waker(&w);
                let r: Poll<Option<Vec<VectorDiff<u64>>>> = match &mut st {
                    St::U(s) => s.as_mut().poll_next(&mut cx).map(|o| o.map(|d| vec![d])),
                    St::B(s) => s.as_mut().poll_next(&mut cx),
                };
                match r {
                    Poll::Ready(Some(ds)) => {
                        if ds.is_empty() {
                            return Err(format!("[C07|C13] subscriber {k} received an empty batch"));
                        }
                        for d in ds {
                            if matches!(d, VectorDiff::Reset { .. }) {
                                resets += 1;
                            }
                            let ok = std::panic::catch_unwind(std::panic::AssertUnwindSafe(|| d.apply(&mut replica)));
                            if ok.is_err() {
                                return Err(format!("[C05|C06|C08] subscriber {k} received an inapplicable diff"));
                            }
                            items += 1;
                        }
                    }
                    Poll::Ready(None) => break,
                    Poll::Pending => {
                        let mut checked = false;
                        loop {
                            if flag.woken() {
                                break;
                            }
                            if !checked && wd.get() && !flag.woken() {
                                // the writer has finished and nothing woke this poll: it happened after the
                                // last publication, so the stream is quiescent and the vector no longer
                                // changes - the replica must equal its contents (C06)
                                checked = true;
                                let fin = fs.lock().unwrap().clone().unwrap();
                                if replica != view(&fin) {
                                    return Err(format!(
                                        "{tags_view} subscriber {k} ({}{}) reports Pending after the writer finished, with replica {:?} but the vector holds {:?}",
                                        if batched { "batched" } else { "plain" },
                                        ["", ", through filter(even)", ", through head(3)", ", through tail(4)"][adapter],
                                        replica.iter().collect::<Vec<_>>(),
                                        fin.iter().collect::<Vec<_>>()
                                    ));
                                }
                            }
                            if q.get() && !flag.woken() {
                                // the vector is gone: a pending subscriber must have been woken by the drop
                                return Err(format!("[C08|C14] subscriber {k} was Pending when the vector was dropped and its waker was never woken"));
                            }
                            std::thread::park_timeout(Duration::from_millis(1));
                        }
                    }
                }
            }
            clear_mode();
            // compared by the caller with the final contents: hand back what the view of them should be compared to
            let _ = &view;
            Ok((replica, items, resets, adapter))
        }));
    }
    set_free_mode(mix(seed, 5), pm);
    let mut ctr = 100u64;
    // a bursty writer (capacity + 3 updates, then a pause) lets a subscriber fall behind in the middle of one poll
    // and then find the channel quiet
    let bursty = rng.chance(1, 2);
    let mut in_burst = 0usize;
    for _ in 0..ops {
        if bursty {
            in_burst += 1;
            if in_burst > cap + 3 {
                in_burst = 0;
                let t = Instant::now();
                let d = Duration::from_micros(rng.range(20, 300) as u64);
                while t.elapsed() < d {
                    std::thread::yield_now();
                }
            }
        }
        ctr += 1;
        let len = ob.len();
        match rng.below(10) {
            0 | 1 => ob.push_back(ctr),
            2 => ob.push_front(ctr),
            3 => {
                ob.pop_front();
            }
            4 => {
                ob.pop_back();
            }
            5 if len > 0 => {
                ob.set(rng.below(len), ctr);
            }
            6 if len > 0 => {
                ob.remove(rng.below(len));
            }
            7 => ob.insert(rng.below(len + 1), ctr),
            8 => {
                let mut tx = ob.transaction();
                tx.push_back(ctr);
                tx.push_front(ctr + 1000);
                if rng.chance(1, 2) {
                    tx.pop_back();
                }
                if rng.chance(3, 4) {
                    tx.commit();
                }
            }
            _ => ob.truncate(rng.below(len + 1)),
        }
        if rng.chance(1, 6) {
            std::thread::yield_now();
        }
    }
    let fin: Vector<u64> = (*ob).clone();
    *fin_slot.lock().unwrap() = Some(fin.clone());
    writer_done.set();
    // leave the subscribers time to reach their quiescent Pending before the vector goes away
    std::thread::sleep(Duration::from_micros(if small() { 0 } else { 400 }));
    drop(ob);
    clear_mode();
    quiesce.set();
    let mut total = 0;
    for (k, h) in hs.into_iter().enumerate() {
        let (replica, items, _resets, adapter) = h.join().map_err(|_| "subscriber thread panicked".to_string())??;
        total += items;
        let want: Vector<u64> = match adapter {
            0 => fin.clone(),
            1 => fin.iter().filter(|x| **x % 2 == 0).copied().collect(),
            2 => fin.iter().take(3).copied().collect(),
            _ => fin.iter().skip(fin.len().saturating_sub(4)).copied().collect(),
        };
        if replica != want {
            return Err(format!(
                "[C06|C08|C13] subscriber {k} ended with replica {:?} but the final contents are {:?}",
                replica.iter().collect::<Vec<_>>(),
                fin.iter().collect::<Vec<_>>()
            ));
        }
    }
    Ok((total + ops, n_subs + 1))
}

pub fn run_c06(p: &Params) -> Outcome {
    let mut out = Outcome::default();
    if want(p, "seq") {
        out.merge(crate::runners_vec::run_c06(p));
    }
    if want(p, "threads") {
        // lag that starts while a subscriber is inside poll_next is only reachable across threads
        out.merge(run_rounds("C06", p, "c06-threads", p.n(2_500, 60_000), round_c08_threads));
    }
    out
}

pub fn run_c08(p: &Params) -> Outcome {
    let mut out = Outcome::default();
    if want(p, "seq") {
        out.merge(crate::runners_vec::run_c08(p));
    }
    if want(p, "threads") {
        out.merge(run_rounds("C08", p, "c08-threads", p.n(1_500, 40_000), round_c08_threads));
    }
    out
}
