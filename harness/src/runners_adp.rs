//! Property runners on top of the adapter engine: C09 C10 C11 C12 C13 C14 C15.

use serde_json::json;

use crate::{
    common::*,
    engine_adp::*,
    engine_vec::{apply_model, Div},
    vops::*,
    Params,
};

pub fn record_afacts(ev: &mut Ev, f: &AFacts) {
    ev.add("source_diffs_in", f.diffs_in);
    ev.add("diffs_out_of_top_stage", f.diffs_out);
    ev.add("items_out_of_top_stage", f.batches_out);
    ev.add("source_resets_in", f.resets_in);
    ev.add("multi_diff_source_batches", f.multi_batches_in);
    ev.add("quiescent_checks", f.quiescent_checks);
    ev.add("limit_changes_announced", f.param_changes);
    ev.add("limit_values_consumed", f.param_consumed);
    ev.add("limit_streams_closed", f.limit_closed);
    ev.add("wake_implications_checked", f.wake_checks);
    ev.add("pending_polls_woken_by_limit_change", f.woken_by_param);
    ev.add("per_diff_bound_checks", f.bound_checks);
    ev.add("nonempty_stage_views_checked", f.nonempty_views);
    ev.add("batch_state_matches", f.stage_state_matches);
    ev.add("stages_that_stopped_before_their_input_was_pending_(judged_against_the_input_now)", f.early_stops);
    ev.add("streams_ended", f.ended as u64);
    for k in &f.kinds_in {
        ev.count(&format!("in_{k}"));
    }
    for k in &f.kinds_out {
        ev.count(&format!("out_{k}"));
    }
}

pub fn judge_adp(
    prop: &str,
    h: &AdpHistory,
    known: &Known,
    case: serde_json::Value,
    out: &mut Outcome,
    nontrivial: &dyn Fn(&AFacts) -> bool,
) -> Option<AFacts> {
    out.ev.evaluations += 1;
    let r = std::panic::catch_unwind(std::panic::AssertUnwindSafe(|| run_adp_history(h, prop, known)));
    let r = match r {
        Ok(r) => r,
        Err(_) => Err(Div { prop: "PANIC", what: format!("unexpected panic: {}", last_panic()) }),
    };
    match r {
        Ok(f) => {
            record_afacts(&mut out.ev, &f);
            for sig in &f.known {
                if known.has(prop, sig) {
                    *out.ev.known_hits.entry(sig.to_string()).or_insert(0) += 1;
                } else {
                    out.ev.count(&format!("histories_resynchronised_after_{sig}_(no_violation_of_this_property)"));
                }
            }
            if nontrivial(&f) {
                out.ev.nontrivial(hash_of(h));
                if out.ev.samples.len() < 3 {
                    out.ev.sample(json!({"history": h.show()}));
                }
            }
            Some(f)
        }
        Err(d) => {
            if d.prop.split('|').any(|x| x == prop) || d.prop == "PANIC" {
                out.violations.push(Violation { property: prop.to_string(), case, history: h.show(), what: d.what });
            } else {
                out.ev.foreign += 1;
                out.ev.count(&format!("foreign_divergence_{}", d.prop));
            }
            None
        }
    }
}

// ---------------------------------------------------------------------------------------------
// generators

#[derive(Clone)]
pub struct AGen {
    pub caps: &'static [usize],
    pub maxlen: usize,
    pub vmax: u32,
    pub min_ops: usize,
    pub max_ops: usize,
    pub txn_pct: usize,
    pub param_pct: usize,
    pub poll_pct: usize,
    pub close_pm: usize,
    pub drop_pm: usize,
    pub trav: bool,
    /// upper bound for the length of the initial vector
    pub init_max: usize,
    /// never drain after every operation
    pub lazy_only: bool,
    /// now and then a run of 33..90 updates that all happen at one end of the vector, followed by one update
    /// at the other end
    pub far_runs: bool,
}

/// big channels, long stretches without a poll: dozens to hundreds of updates wait in the channel
pub fn backlog(g: &AGen) -> AGen {
    AGen { caps: &[33, 64, 100, 128, 256], min_ops: 80, max_ops: 300, poll_pct: 2, lazy_only: true, drop_pm: 2, close_pm: g.close_pm / 4, ..g.clone() }
}

/// the same over long sources with small views: most updates are far away from what the adapter shows
pub fn backlog_far(g: &AGen) -> AGen {
    AGen { maxlen: 120, init_max: 100, vmax: g.vmax.max(200), max_ops: 200, far_runs: true, ..backlog(g) }
}

/// limits / counts at the edges of `usize` and `isize` ("no limit" is commonly written `usize::MAX`)
pub fn huge(rng: &mut Rng) -> usize {
    *rng.pick(&[usize::MAX, usize::MAX - 1, usize::MAX / 2, usize::MAX / 2 + 1, usize::MAX / 2 + 2, usize::MAX - 7])
}
pub const HUGE_FROM: usize = 1 << 48;

pub fn gen_lim(rng: &mut Rng, kinds: &[Kind], pks: &[PK], maxn: usize) -> Stage {
    let n = if rng.chance(1, 25) { huge(rng) } else { rng.below(maxn + 1) };
    Stage::Lim { kind: *rng.pick(kinds), pk: *rng.pick(pks), n, queue: rng.chance(1, 2) }
}

pub const ALL_KINDS: &[Kind] = &[Kind::Head, Kind::Tail, Kind::Skip];
pub const BASIC_PKS: &[PK] = &[PK::Static, PK::DynInit, PK::Dyn];
pub const ALL_PKS: &[PK] =
    &[PK::Static, PK::DynInit, PK::Dyn, PK::DynParts, PK::DynPartsPolled, PK::StaticParts, PK::DynInitParts];

pub fn gen_stage(rng: &mut Rng, pks: &[PK], maxn: usize) -> Stage {
    match rng.below(14) {
        0..=8 => gen_lim(rng, ALL_KINDS, pks, maxn),
        9 => Stage::Filter(rng.below(16) as u8),
        10 => Stage::FilterMap(rng.below(16) as u8),
        11 => Stage::Sort,
        12 => Stage::SortBy,
        _ => Stage::SortByKey,
    }
}

pub fn gen_adp_history(rng: &mut Rng, chain: Vec<Stage>, batched: bool, g: &AGen) -> AdpHistory {
    let capacity = *rng.pick(g.caps);
    // (colossal mode: more than 2^16 items from the start)
    let n_init = if g.init_max > 60_000 { rng.range(66_000, g.init_max) } else { rng.below(g.init_max + 1) };
    let mut init: Vec<u32> = (0..n_init).map(|_| rng.below(g.vmax as usize) as u32).collect();
    if g.init_max > 60_000 && rng.chance(1, 2) {
        // everything from some point before 2^16 on falls into one value class (v % 4): a filter rejects, or keeps,
        // the whole tail
        let from = rng.range(60_000, 65_500);
        let class = rng.below(4) as u32;
        for v in init[from..].iter_mut() {
            *v = (*v / 4) * 4 + class;
        }
    }
    let mut model = init.clone();
    let eager = !g.lazy_only && rng.chance(1, 3);
    let n_ops = rng.range(g.min_ops, g.max_ops);
    let dyn_stages: Vec<usize> = chain.iter().enumerate().filter(|(_, s)| s.dynamic()).map(|(i, _)| i + 1).collect();
    let mut ops = vec![];
    // the limit each dynamic stage was given last (a Tail whose limit is huge is only ever given 0 or another huge
    // limit next: the known finding F4 makes it emit old-new PopFronts for a decrease beyond the length, which for
    // a huge `old` cannot be executed - it ends in a capacity overflow or an allocation of terabytes)
    let mut cur: Vec<usize> = chain
        .iter()
        .map(|s| match s {
            Stage::Lim { pk, n, .. } if !matches!(pk, PK::Dyn | PK::DynParts) => *n,
            _ => 0,
        })
        .collect();
    for _ in 0..n_ops {
        let r = rng.below(100);
        if !dyn_stages.is_empty() && r < g.param_pct {
            let st = *rng.pick(&dyn_stages);
            let mut val = if rng.chance(1, 16) { huge(rng) } else { rng.below(model.len() + 3) };
            // (sticky: an observable-backed limit stream skips values that were not polled in between, so after a
            // huge limit a Tail only ever sees 0 or huge limits)
            if chain[st - 1].is_tail() && cur[st - 1] >= HUGE_FROM {
                if val < HUGE_FROM {
                    val = 0;
                }
            } else {
                cur[st - 1] = val;
            }
            ops.push(AOp::Param(st, val));
            continue;
        }
        if !eager && rng.below(100) < g.poll_pct {
            ops.push(AOp::Poll(if rng.chance(3, 4) { 0 } else { rng.range(1, 3) }));
            continue;
        }
        if !dyn_stages.is_empty() && rng.below(1000) < g.close_pm {
            ops.push(AOp::CloseParam(*rng.pick(&dyn_stages)));
            continue;
        }
        if rng.below(1000) < g.drop_pm {
            ops.push(AOp::DropSrc);
            if !eager {
                ops.push(AOp::Poll(rng.below(3)));
            }
            break;
        }
        if g.far_runs && rng.chance(1, 10) {
            // a long run at one end (nothing a small view at the other end shows), then one update at the
            // other end
            let at_back = rng.chance(1, 2);
            let in_txn = rng.chance(1, 6);
            let mut run = vec![];
            let mut w = model.clone();
            for _ in 0..rng.range(33, 90) {
                let len = w.len();
                let v = rng.below(g.vmax as usize) as u32;
                let far = |rng: &mut Rng, len: usize| if at_back { len - 1 - rng.below(len / 3 + 1) } else { rng.below(len / 3 + 1) };
                let op = match rng.below(6) {
                    0 | 1 if len < g.maxlen => {
                        if at_back {
                            VOp::PushBack(v)
                        } else {
                            VOp::PushFront(v)
                        }
                    }
                    2 if len > 12 => {
                        if at_back {
                            VOp::PopBack
                        } else {
                            VOp::PopFront
                        }
                    }
                    3 if len > 12 => VOp::Set(far(rng, len), v),
                    4 if len > 12 => VOp::Remove(far(rng, len)),
                    5 if len > 12 && len < g.maxlen => VOp::Insert(far(rng, len), v),
                    _ => continue,
                };
                model_op(&mut w, &op);
                run.push(op);
            }
            let len = w.len();
            let v = rng.below(g.vmax as usize) as u32;
            let near = match rng.below(3) {
                0 if len > 0 => VOp::Set(if at_back { 0 } else { len - 1 }, v),
                1 if len > 0 => {
                    if at_back {
                        VOp::PopFront
                    } else {
                        VOp::PopBack
                    }
                }
                _ => {
                    if at_back {
                        VOp::PushFront(v)
                    } else {
                        VOp::PushBack(v)
                    }
                }
            };
            run.push(near);
            if in_txn {
                let t = VOp::Txn(run, TxEnd::Commit);
                apply_model(&mut model, &t);
                ops.push(AOp::Src(t));
            } else {
                for op in run {
                    apply_model(&mut model, &op);
                    ops.push(AOp::Src(op));
                }
            }
            continue;
        }
        let vop = if rng.below(100) < g.txn_pct {
            gen_txn(rng, model.len(), g.vmax, false, g.trav, g.maxlen)
        } else {
            gen_vop(rng, model.len(), g.vmax, false, g.trav, g.maxlen)
        };
        // colossal mode: half of the index-addressed updates aim at the far end (beyond position 2^16)
        let vop = if g.init_max > 60_000 && model.len() > 1000 && rng.chance(1, 2) {
            let far = |rng: &mut Rng, len: usize| len - 1 - rng.below(len.min(4500) - 1);
            match vop {
                VOp::Set(_, v) => VOp::Set(far(rng, model.len()), v),
                VOp::Remove(_) => VOp::Remove(far(rng, model.len())),
                VOp::Insert(_, v) => VOp::Insert(far(rng, model.len()), v),
                VOp::Truncate(_) => VOp::Truncate(far(rng, model.len())),
                other => other,
            }
        } else {
            vop
        };
        apply_model(&mut model, &vop);
        ops.push(AOp::Src(vop));
    }
    AdpHistory { capacity, init, chain, batched, eager, same_waker: rng.chance(1, 4), ops }
}

/// source alphabet for exhaustive enumeration: every diff kind, every index; inserted values come
/// from `valf(step, j)`
fn src_alphabet(m: &[u32], step: usize, valf: &dyn Fn(usize, usize) -> u32, maxlen: usize, txns: bool) -> Vec<AOp> {
    let len = m.len();
    let v0 = valf(step, 0);
    let v1 = valf(step, 1);
    let mut a = vec![VOp::Clear, VOp::PopFront, VOp::PopBack];
    if len < maxlen {
        a.push(VOp::PushFront(v0));
        a.push(VOp::PushBack(v0));
        a.push(VOp::Append(vec![v0, v1]));
        for i in 0..=len {
            a.push(VOp::Insert(i, v0));
        }
    }
    for i in 0..len {
        a.push(VOp::Set(i, v0));
        a.push(VOp::Remove(i));
    }
    for n in 0..len {
        a.push(VOp::Truncate(n));
    }
    if txns {
        a.push(VOp::Txn(vec![VOp::PushBack(v0), VOp::PushFront(v1)], TxEnd::Commit));
        a.push(VOp::Txn(vec![VOp::PopFront, VOp::PushBack(v0), VOp::PushBack(v1)], TxEnd::Commit));
        if len >= 1 {
            a.push(VOp::Txn(vec![VOp::Truncate(len - 1), VOp::Insert(0, v0)], TxEnd::Commit));
            a.push(VOp::Txn(vec![VOp::Set(len - 1, v0), VOp::PopBack, VOp::PopBack], TxEnd::Commit));
        }
    }
    a.into_iter().map(AOp::Src).collect()
}

#[derive(Clone)]
pub struct ARoot {
    pub chain: Vec<Stage>,
    pub batched: bool,
    pub eager: bool,
    pub cap: usize,
    pub init: Vec<u32>,
}

fn dfs_adp(
    root: &ARoot,
    model: &mut Vec<u32>,
    prefix: &mut Vec<AOp>,
    depth: usize,
    alpha: &dyn Fn(&ARoot, &[u32], usize) -> Vec<AOp>,
    visit: &mut dyn FnMut(&[AOp]),
) {
    visit(prefix);
    if depth == 0 {
        return;
    }
    for op in alpha(root, model, prefix.len()) {
        let saved = model.clone();
        if let AOp::Src(v) = &op {
            apply_model(model, v);
        }
        let stop = matches!(op, AOp::DropSrc);
        prefix.push(op);
        dfs_adp(root, model, prefix, if stop { 0 } else { depth - 1 }, alpha, visit);
        prefix.pop();
        *model = saved;
    }
}

fn exh_adp(
    prop: &str,
    p: &Params,
    gen_name: &str,
    roots: &[ARoot],
    depth: usize,
    alpha: &(dyn Fn(&ARoot, &[u32], usize) -> Vec<AOp> + Sync),
    nontrivial: &(dyn Fn(&AFacts) -> bool + Sync),
    scope: &str,
) -> Outcome {
    let run_root = |i: u64, out: &mut Outcome| {
        let r = &roots[i as usize];
        let mut model = r.init.clone();
        let mut prefix = vec![];
        let mut leaf = 0u64;
        dfs_adp(r, &mut model, &mut prefix, depth, alpha, &mut |ops| {
            let h = AdpHistory {
                capacity: r.cap,
                init: r.init.clone(),
                chain: r.chain.clone(),
                batched: r.batched,
                eager: r.eager,
                same_waker: leaf % 3 == 2,
                ops: ops.to_vec(),
            };
            judge_adp(prop, &h, &p.known, json!({"gen": gen_name, "case": i, "leaf": leaf}), out, nontrivial);
            leaf += 1;
        });
    };
    let mut out = p.cases(gen_name, roots.len() as u64, run_root);
    out.ev.exhaustive_scopes.push(format!("{gen_name}: {scope}; every operation sequence of length <= {depth}; {} roots", roots.len()));
    out
}

fn rand_adp(
    prop: &str,
    p: &Params,
    gen_name: &str,
    n: u64,
    g: &AGen,
    chain_gen: &(dyn Fn(&mut Rng) -> (Vec<Stage>, bool) + Sync),
    nontrivial: &(dyn Fn(&AFacts) -> bool + Sync),
) -> Outcome {
    if p.san() && (gen_name.ends_with("-giant") || gen_name.ends_with("-scale") || gen_name.ends_with("-colossal")) {
        // thousands of items / messages: native runs only (Miri would take hours, 4 KB elements gigabytes)
        return Outcome::default();
    }
    let seed = p.seed;
    // under Miri: short histories on vectors within one imbl chunk (imbl 5.0's FocusMut, which Sort's bulk sort
    // goes through for longer vectors, is reported by Miri's Tree Borrows model - a matter of that dependency,
    // see DESIGN.md section 9)
    let small = AGen { min_ops: g.min_ops.min(2), max_ops: g.max_ops.min(12), maxlen: g.maxlen.min(24), init_max: g.init_max.min(12), far_runs: false, ..g.clone() };
    let g = if p.san() { &small } else { g };
    p.cases(gen_name, n, |i, out| {
        let mut rng = Rng::new(mix(seed, mix(hash_of(&gen_name), i)));
        let (chain, batched) = chain_gen(&mut rng);
        let mut h = gen_adp_history(&mut rng, chain, batched, g);
        if gen_name.ends_with("-scale") && i % 3 == 0 {
            // a regular bulk load instead of random traffic: thousands of push_backs (single updates waiting in the
            // channel, or one transaction), a limit change in the thousands now and then, then one poll - one batch
            // of a batched chain carries thousands of diffs of one kind
            let n = rng.range(2200, 6000);
            let mut ops: Vec<AOp> = vec![AOp::Poll(0)];
            let pushes: Vec<VOp> = (0..n).map(|k| VOp::PushBack((k % 17) as u32)).collect();
            if n <= h.capacity && rng.chance(1, 2) {
                ops.extend(pushes.into_iter().map(AOp::Src));
            } else {
                ops.push(AOp::Src(VOp::Txn(pushes, TxEnd::Commit)));
            }
            ops.push(AOp::Poll(0));
            ops.push(AOp::Src(VOp::PopFront));
            ops.push(AOp::Poll(0));
            h.ops = ops;
            h.eager = false;
        }
        judge_adp(prop, &h, &p.known, json!({"gen": gen_name, "case": i, "seed": seed}), out, nontrivial);
    })
}

fn inits(upto: usize) -> Vec<Vec<u32>> {
    (0..=upto).map(|k| (0..k as u32).map(|i| 1 + i).collect()).collect()
}

fn fresh(step: usize, j: usize) -> u32 {
    (10 + 2 * step + j) as u32
}

fn roots_for(
    chains: &[Vec<Stage>],
    inits: &[Vec<u32>],
    modes: &[(bool, usize)], // (eager, capacity)
) -> Vec<ARoot> {
    let mut roots = vec![];
    for chain in chains {
        for init in inits {
            for &(eager, cap) in modes {
                for batched in [false, true] {
                    roots.push(ARoot { chain: chain.clone(), batched, eager, cap, init: init.clone() });
                }
            }
        }
    }
    roots
}

/// operations of the lazy polling mode
fn poll_ops() -> Vec<AOp> {
    vec![AOp::Poll(0), AOp::Poll(1)]
}

fn param_ops(root: &ARoot, upto: usize) -> Vec<AOp> {
    let mut a = vec![];
    for (i, s) in root.chain.iter().enumerate() {
        if s.dynamic() {
            for v in 0..=upto {
                a.push(AOp::Param(i + 1, v));
            }
        }
    }
    a
}

// ---------------------------------------------------------------------------------------------

pub fn run_c09(p: &Params) -> Outcome {
    let nt = |f: &AFacts| f.diffs_out >= 1 && f.quiescent_checks >= 1 && f.nonempty_views >= 1;
    let mut chains = vec![];
    for kind in [Kind::Head, Kind::Tail, Kind::Skip] {
        for n in 0..=5usize {
            chains.push(vec![Stage::Lim { kind, pk: PK::Static, n, queue: false }]);
            chains.push(vec![Stage::Lim { kind, pk: PK::DynInit, n, queue: n % 2 == 0 }]);
        }
        chains.push(vec![Stage::Lim { kind, pk: PK::Dyn, n: 0, queue: false }]);
        chains.push(vec![Stage::Lim { kind, pk: PK::Dyn, n: 0, queue: true }]);
    }
    let roots = roots_for(&chains, &inits(4), &[(true, 16), (false, 16), (false, 1)]);
    let depth = if p.thorough { 3 } else { 2 };
    let alpha = |r: &ARoot, m: &[u32], step: usize| -> Vec<AOp> {
        let mut a = src_alphabet(m, step, &fresh, 6, true);
        a.extend(param_ops(r, 5));
        if !r.eager {
            a.extend(poll_ops());
        }
        if r.chain[0].dynamic() {
            a.push(AOp::CloseParam(1));
        }
        a.push(AOp::DropSrc);
        a
    };
    let mut out = exh_adp(
        "C09",
        p,
        "c09-exh",
        &roots,
        depth,
        &alpha,
        &nt,
        "head/tail/skip x {static, dynamic with initial value, purely dynamic} x parameters 0..5 x initial lengths 0..4 x both flavours x {drain after every op cap 16, lazy cap 16, lazy cap 1}; alphabet = every source diff kind with every index, 4 transactions, every limit value 0..5, polls, close-limit, drop",
    );
    let g = AGen {
        caps: &[1, 2, 4, 16],
        maxlen: 10,
        vmax: 50,
        min_ops: 5,
        max_ops: 40,
        txn_pct: 15,
        param_pct: 18,
        poll_pct: 30,
        close_pm: 10,
        drop_pm: 8,
        trav: true,
        init_max: 6,
        lazy_only: false,
        far_runs: false,
    };
    out.merge(rand_adp(
        "C09",
        p,
        "c09-rand",
        p.n(100_000, 3_000_000),
        &g,
        &|rng| (vec![gen_lim(rng, ALL_KINDS, ALL_PKS, 8)], rng.chance(1, 2)),
        &nt,
    ));
    // large vectors: views with dozens of items, sources beyond one imbl chunk (64)
    let gbig = AGen { maxlen: 110, init_max: 90, vmax: 400, max_ops: 30, ..g.clone() };
    out.merge(rand_adp("C09", p, "c09-rand-large", p.n(6_000, 200_000), &gbig, &|rng| (vec![gen_lim(rng, ALL_KINDS, BASIC_PKS, 100)], rng.chance(1, 2)), &nt));
    // giant vectors: thousands of items (imbl's tree gets a third level above 4096), limits and views in the thousands
    let ggiant = AGen { maxlen: 9500, init_max: 9000, vmax: 20_000, min_ops: 8, max_ops: 30, ..g.clone() };
    out.merge(rand_adp("C09", p, "c09-rand-giant", p.n(150, 4_000), &ggiant, &|rng| (vec![gen_lim(rng, ALL_KINDS, BASIC_PKS, 9000)], rng.chance(1, 2)), &nt));
    // thousands of messages waiting in a channel of thousands and transactions of thousands of diffs (small
    // vectors): one poll of a batched chain handles thousands of diffs
    let gscale = AGen { caps: &[2048, 4096, 8192], maxlen: 40, init_max: 30, vmax: 20_000, min_ops: 1100, max_ops: 2600, poll_pct: 1, txn_pct: 10, lazy_only: true, drop_pm: 0, close_pm: 0, ..g.clone() };
    out.merge(rand_adp("C09", p, "c09-rand-scale", p.n(100, 3_000), &gscale, &|rng| (vec![gen_lim(rng, ALL_KINDS, BASIC_PKS, 30)], rng.chance(1, 2)), &nt));
    // colossal vectors: more than 2^16 items (16-bit indices, offsets and counters inside the library overflow here)
    let gcol = AGen { caps: &[16], maxlen: 71_000, init_max: 70_000, vmax: 20_000, min_ops: 6, max_ops: 16, txn_pct: 5, ..g.clone() };
    out.merge(rand_adp("C09", p, "c09-rand-colossal", p.n(24, 400), &gcol, &|rng| (vec![gen_lim(rng, ALL_KINDS, BASIC_PKS, 70_000)], rng.chance(1, 2)), &nt));
    // long histories on small vectors (accumulating state, repeated Resets, many limit changes)
    let glong = AGen { min_ops: 150, max_ops: 400, caps: &[1, 2, 3, 5, 8, 16], ..g.clone() };
    out.merge(rand_adp("C09", p, "c09-rand-long", p.n(1_200, 30_000), &glong, &|rng| (vec![gen_lim(rng, ALL_KINDS, BASIC_PKS, 8)], rng.chance(1, 2)), &nt));
    out.merge(rand_adp("C09", p, "c09-rand-backlog", p.n(1_500, 40_000), &backlog(&g), &|rng| (vec![gen_lim(rng, ALL_KINDS, BASIC_PKS, 4)], rng.chance(1, 2)), &nt));
    out.merge(late_parts("C09", p));
    out.merge(rand_adp("C09", p, "c09-rand-backlog-far", p.n(1_500, 40_000), &backlog_far(&g), &|rng| (vec![gen_lim(rng, ALL_KINDS, BASIC_PKS, 4)], rng.chance(1, 2)), &nt));
    out
}

pub fn run_c10(p: &Params) -> Outcome {
    let nt = |f: &AFacts| f.diffs_out >= 1 && f.quiescent_checks >= 1 && f.nonempty_views >= 1;
    let mut chains = vec![];
    for mask in 0..16u8 {
        chains.push(vec![Stage::Filter(mask)]);
        chains.push(vec![Stage::FilterMap(mask)]);
    }
    let roots = roots_for(&chains, &inits(4), &[(true, 16), (false, 16), (false, 1)]);
    let depth = if p.thorough { 3 } else { 2 };
    let alpha = |r: &ARoot, m: &[u32], step: usize| -> Vec<AOp> {
        // two candidate values per step from different residue classes mod 4
        let mut a = src_alphabet(m, step, &|s, j| (4 + 3 * s + j) as u32, 6, true);
        if !r.eager {
            a.extend(poll_ops());
        }
        a.push(AOp::DropSrc);
        a
    };
    let mut out = exh_adp(
        "C10",
        p,
        "c10-exh",
        &roots,
        depth,
        &alpha,
        &nt,
        "filter and filter_map x all 16 pass/fail assignments over the value classes v%4 x initial lengths 0..4 x both flavours x {drain after every op, lazy cap 16, lazy cap 1 (Resets)}",
    );
    let g = AGen {
        caps: &[1, 2, 4, 16],
        maxlen: 10,
        vmax: 8,
        min_ops: 5,
        max_ops: 40,
        txn_pct: 15,
        param_pct: 0,
        poll_pct: 25,
        close_pm: 0,
        drop_pm: 8,
        trav: true,
        init_max: 6,
        lazy_only: false,
        far_runs: false,
    };
    out.merge(rand_adp(
        "C10",
        p,
        "c10-rand",
        p.n(100_000, 3_000_000),
        &g,
        &|rng| {
            let m = rng.below(16) as u8;
            (vec![if rng.chance(1, 2) { Stage::Filter(m) } else { Stage::FilterMap(m) }], rng.chance(1, 2))
        },
        &nt,
    ));
    // large vectors: views with dozens of items, sources beyond one imbl chunk (64)
    let gbig = AGen { maxlen: 110, init_max: 90, vmax: 400, max_ops: 30, ..g.clone() };
    out.merge(rand_adp("C10", p, "c10-rand-large", p.n(6_000, 200_000), &gbig, &|rng| {
        let m = [0b0101u8, 0b1110, 0b0111, 0b1111, 0b0001][rng.below(5)];
        (vec![if rng.chance(1, 2) { Stage::Filter(m) } else { Stage::FilterMap(m) }], rng.chance(1, 2))
    }, &nt));
    // giant vectors: thousands of items (imbl's tree gets a third level above 4096), limits and views in the thousands
    let ggiant = AGen { maxlen: 9500, init_max: 9000, vmax: 20_000, min_ops: 8, max_ops: 30, ..g.clone() };
    out.merge(rand_adp("C10", p, "c10-rand-giant", p.n(150, 4_000), &ggiant, &|rng| {
        let m = [0b0101u8, 0b1110, 0b0111, 0b1111, 0b0001][rng.below(5)];
        (vec![if rng.chance(1, 2) { Stage::Filter(m) } else { Stage::FilterMap(m) }], rng.chance(1, 2))
    }, &nt));
    // thousands of messages waiting in a channel of thousands and transactions of thousands of diffs (small
    // vectors): one poll of a batched chain handles thousands of diffs
    let gscale = AGen { caps: &[2048, 4096, 8192], maxlen: 40, init_max: 30, vmax: 20_000, min_ops: 1100, max_ops: 2600, poll_pct: 1, txn_pct: 10, lazy_only: true, drop_pm: 0, close_pm: 0, ..g.clone() };
    out.merge(rand_adp("C10", p, "c10-rand-scale", p.n(100, 3_000), &gscale, &|rng| {
        let m = [0b0101u8, 0b1110, 0b0111, 0b1111, 0b0001][rng.below(5)];
        (vec![if rng.chance(1, 2) { Stage::Filter(m) } else { Stage::FilterMap(m) }], rng.chance(1, 2))
    }, &nt));
    // colossal vectors: more than 2^16 items (16-bit indices, offsets and counters inside the library overflow here)
    let gcol = AGen { caps: &[16], maxlen: 71_000, init_max: 70_000, vmax: 20_000, min_ops: 6, max_ops: 16, txn_pct: 5, ..g.clone() };
    out.merge(rand_adp("C10", p, "c10-rand-colossal", p.n(60, 600), &gcol, &|rng| {
        // (masks over v % 4; the colossal generator also makes vectors whose tail is rejected as a whole: see gen)
        let m = [0b0101u8, 0b1110, 0b0001, 0b1000][rng.below(4)];
        (vec![if rng.chance(1, 2) { Stage::Filter(m) } else { Stage::FilterMap(m) }], rng.chance(1, 2))
    }, &nt));
    // long histories on small vectors (accumulating state, repeated Resets, many limit changes)
    let glong = AGen { min_ops: 150, max_ops: 400, caps: &[1, 2, 3, 5, 8, 16], ..g.clone() };
    out.merge(rand_adp("C10", p, "c10-rand-long", p.n(1_200, 30_000), &glong, &|rng| {
        let m = rng.below(16) as u8;
        (vec![if rng.chance(1, 2) { Stage::Filter(m) } else { Stage::FilterMap(m) }], rng.chance(1, 2))
    }, &nt));
    out.merge(rand_adp("C10", p, "c10-rand-backlog", p.n(1_500, 40_000), &backlog(&g), &|rng| {
        let m = [0u8, 0b0001, 0b1000, 0b0100, 0b0110, 0b1111][rng.below(6)];
        (vec![if rng.chance(1, 2) { Stage::Filter(m) } else { Stage::FilterMap(m) }], rng.chance(1, 2))
    }, &nt));
    out
}

pub fn run_c11(p: &Params) -> Outcome {
    let nt = |f: &AFacts| f.diffs_out >= 1 && f.quiescent_checks >= 1 && f.nonempty_views >= 1;
    let chains = vec![vec![Stage::Sort], vec![Stage::SortBy], vec![Stage::SortByKey]];
    // initial vectors with and without ties, unsorted
    let inits: Vec<Vec<u32>> = vec![vec![], vec![4], vec![6, 2], vec![5, 1, 4], vec![3, 3, 2, 7], vec![8, 1, 9, 0, 5]];
    let roots = roots_for(&chains, &inits, &[(true, 16), (false, 16), (false, 1)]);
    let depth = if p.thorough { 3 } else { 2 };
    let alpha = |r: &ARoot, m: &[u32], step: usize| -> Vec<AOp> {
        // values below, between, equal to (ties) and above what is there
        let mut a = vec![];
        for (j, v) in [0u32, 4, 5, 9].iter().enumerate() {
            if j % 2 == step % 2 || step == 0 {
                a.extend(src_alphabet(m, step, &|_, k| if k == 0 { *v } else { 3 }, 6, j == 0));
            }
        }
        if !r.eager {
            a.extend(poll_ops());
        }
        a.push(AOp::DropSrc);
        a
    };
    let mut out = exh_adp(
        "C11",
        p,
        "c11-exh",
        &roots,
        depth,
        &alpha,
        &nt,
        "sort, sort_by(reverse), sort_by_key(v/2) x 6 unsorted initial vectors with and without ties x both flavours x {drain after every op, lazy cap 16, lazy cap 1}; inserted values below/between/equal/above the existing ones",
    );
    let g = AGen {
        caps: &[1, 2, 4, 16],
        maxlen: 10,
        vmax: 12,
        min_ops: 5,
        max_ops: 40,
        txn_pct: 15,
        param_pct: 0,
        poll_pct: 25,
        close_pm: 0,
        drop_pm: 8,
        trav: true,
        init_max: 6,
        lazy_only: false,
        far_runs: false,
    };
    out.merge(rand_adp(
        "C11",
        p,
        "c11-rand",
        p.n(100_000, 3_000_000),
        &g,
        &|rng| (vec![*rng.pick(&[Stage::Sort, Stage::SortBy, Stage::SortByKey])], rng.chance(1, 2)),
        &nt,
    ));
    // large vectors: views with dozens of items, sources beyond one imbl chunk (64)
    let gbig = AGen { maxlen: 110, init_max: 90, vmax: 400, max_ops: 30, ..g.clone() };
    out.merge(rand_adp("C11", p, "c11-rand-large", p.n(6_000, 200_000), &gbig, &|rng| (vec![*rng.pick(&[Stage::Sort, Stage::SortBy, Stage::SortByKey])], rng.chance(1, 2)), &nt));
    // giant vectors: thousands of items (imbl's tree gets a third level above 4096), limits and views in the thousands
    let ggiant = AGen { maxlen: 9500, init_max: 9000, vmax: 20_000, min_ops: 8, max_ops: 30, ..g.clone() };
    out.merge(rand_adp("C11", p, "c11-rand-giant", p.n(150, 4_000), &ggiant, &|rng| (vec![*rng.pick(&[Stage::Sort, Stage::SortBy, Stage::SortByKey])], rng.chance(1, 2)), &nt));
    // thousands of messages waiting in a channel of thousands and transactions of thousands of diffs (small
    // vectors): one poll of a batched chain handles thousands of diffs
    let gscale = AGen { caps: &[2048, 4096, 8192], maxlen: 40, init_max: 30, vmax: 20_000, min_ops: 1100, max_ops: 2600, poll_pct: 1, txn_pct: 10, lazy_only: true, drop_pm: 0, close_pm: 0, ..g.clone() };
    out.merge(rand_adp("C11", p, "c11-rand-scale", p.n(100, 3_000), &gscale, &|rng| (vec![*rng.pick(&[Stage::Sort, Stage::SortBy, Stage::SortByKey])], rng.chance(1, 2)), &nt));
    // colossal vectors: more than 2^16 items (16-bit indices, offsets and counters inside the library overflow here)
    let gcol = AGen { caps: &[16], maxlen: 71_000, init_max: 70_000, vmax: 20_000, min_ops: 6, max_ops: 16, txn_pct: 5, ..g.clone() };
    out.merge(rand_adp("C11", p, "c11-rand-colossal", p.n(16, 300), &gcol, &|rng| (vec![*rng.pick(&[Stage::Sort, Stage::SortBy, Stage::SortByKey])], rng.chance(1, 2)), &nt));
    // long histories on small vectors (accumulating state, repeated Resets, many limit changes)
    let glong = AGen { min_ops: 150, max_ops: 400, caps: &[1, 2, 3, 5, 8, 16], ..g.clone() };
    out.merge(rand_adp("C11", p, "c11-rand-long", p.n(1_200, 30_000), &glong, &|rng| (vec![*rng.pick(&[Stage::Sort, Stage::SortBy, Stage::SortByKey])], rng.chance(1, 2)), &nt));
    out.merge(rand_adp("C11", p, "c11-rand-backlog", p.n(1_500, 40_000), &backlog(&g), &|rng| (vec![*rng.pick(&[Stage::Sort, Stage::SortBy, Stage::SortByKey])], rng.chance(1, 2)), &nt));
    out
}

fn stage_grid() -> Vec<Stage> {
    let mut v = vec![];
    for kind in [Kind::Head, Kind::Tail, Kind::Skip] {
        for pk in ALL_PKS {
            let ns: &[usize] = match pk {
                PK::Dyn | PK::DynParts => &[0],
                _ => &[0, 1, 2, 5],
            };
            for &n in ns {
                v.push(Stage::Lim { kind, pk: *pk, n, queue: n % 2 == 1 });
            }
        }
    }
    v.push(Stage::Filter(0b0101));
    v.push(Stage::Filter(0b1110));
    v.push(Stage::FilterMap(0b0110));
    v.push(Stage::FilterMap(0b1011));
    v.push(Stage::Sort);
    v.push(Stage::SortBy);
    v.push(Stage::SortByKey);
    v
}

pub fn run_c12(p: &Params) -> Outcome {
    let nt = |f: &AFacts| f.quiescent_checks >= 1 && f.nonempty_views >= 2;
    let grid = stage_grid();
    let mut chains = vec![];
    for a in &grid {
        for b in &grid {
            chains.push(vec![*a, *b]);
        }
    }
    let inits: Vec<Vec<u32>> = vec![vec![], vec![6, 1], vec![3, 8, 2, 5, 4]];
    let modes: &[(bool, usize)] = if p.thorough { &[(true, 16), (false, 1)] } else { &[(true, 16)] };
    let roots = roots_for(&chains, &inits, modes);
    let depth = if p.thorough { 2 } else { 1 };
    let alpha = |r: &ARoot, m: &[u32], step: usize| -> Vec<AOp> {
        let mut a = src_alphabet(m, step, &|s, j| (7 + 5 * s + 2 * j) as u32 % 12, 7, step == 0);
        for (i, s) in r.chain.iter().enumerate() {
            if s.dynamic() {
                for v in [0usize, 1, 3, 9] {
                    a.push(AOp::Param(i + 1, v));
                }
            }
        }
        a
    };
    let mut out = exh_adp(
        "C12",
        p,
        "c12-exh-pairs",
        &roots,
        depth,
        &alpha,
        &nt,
        &format!(
            "all {}x{} two-stage chains over the stage grid (head/tail/skip x 7 construction forms incl. into_parts at creation, after a poll, and of the static/initial-value streams x parameters {{0,1,2,5}}; 2 filters, 2 filter_maps, 3 sorts) x 3 initial vectors x both flavours, drained after every operation",
            grid.len(),
            grid.len()
        ),
    );
    let g = AGen {
        caps: &[1, 2, 4, 16],
        maxlen: 10,
        vmax: 14,
        min_ops: 4,
        max_ops: 30,
        txn_pct: 15,
        param_pct: 20,
        poll_pct: 30,
        close_pm: 10,
        drop_pm: 8,
        trav: false,
        init_max: 6,
        lazy_only: false,
        far_runs: false,
    };
    out.merge(rand_adp(
        "C12",
        p,
        "c12-rand",
        p.n(100_000, 3_000_000),
        &g,
        &|rng| {
            let n = if rng.chance(1, 8) { 4 } else { rng.range(2, 3) };
            ((0..n).map(|_| gen_stage(rng, ALL_PKS, 6)).collect(), rng.chance(1, 2))
        },
        &nt,
    ));
    // long histories on small vectors: state that accumulates over hundreds of operations, repeated
    // Resets, many limit changes
    let glong = AGen { min_ops: 150, max_ops: 400, caps: &[1, 2, 3, 5, 8, 16], ..g.clone() };
    out.merge(rand_adp(
        "C12",
        p,
        "c12-rand-long",
        p.n(1_500, 40_000),
        &glong,
        &|rng| {
            let n = rng.range(2, 3);
            ((0..n).map(|_| gen_stage(rng, ALL_PKS, 6)).collect(), rng.chance(1, 2))
        },
        &nt,
    ));
    // large vectors: views with dozens of items, sources beyond one imbl chunk (64)
    let gbig = AGen { maxlen: 110, init_max: 90, vmax: 400, max_ops: 30, ..g.clone() };
    out.merge(rand_adp("C12", p, "c12-rand-large", p.n(6_000, 200_000), &gbig, &|rng| {
        let n = rng.range(2, 3);
        ((0..n).map(|_| gen_stage(rng, ALL_PKS, 60)).collect(), rng.chance(1, 2))
    }, &nt));
    // giant vectors under two-stage chains, and deep chains (four to seven stages) over ordinary ones
    let ggiant = AGen { maxlen: 9500, init_max: 9000, vmax: 20_000, min_ops: 8, max_ops: 24, ..g.clone() };
    out.merge(rand_adp("C12", p, "c12-rand-giant", p.n(500, 8_000), &ggiant, &|rng| {
        ((0..2).map(|_| gen_stage(rng, ALL_PKS, 9000)).collect(), rng.chance(1, 2))
    }, &nt));
    out.merge(rand_adp("C12", p, "c12-rand-deep", p.n(4_000, 100_000), &g, &|rng| {
        let n = rng.range(4, 7);
        ((0..n).map(|_| gen_stage(rng, ALL_PKS, 8)).collect(), rng.chance(1, 2))
    }, &nt));
    // thousands of messages waiting in a channel of thousands and transactions of thousands of diffs (small
    // vectors): one poll of a batched chain handles thousands of diffs
    let gscale = AGen { caps: &[2048, 4096, 8192], maxlen: 40, init_max: 30, vmax: 20_000, min_ops: 1100, max_ops: 2600, poll_pct: 1, txn_pct: 10, lazy_only: true, drop_pm: 0, close_pm: 0, ..g.clone() };
    out.merge(rand_adp("C12", p, "c12-rand-scale", p.n(100, 3_000), &gscale, &|rng| {
        ((0..2).map(|_| gen_stage(rng, ALL_PKS, 30)).collect(), rng.chance(1, 2))
    }, &nt));
    out.merge(rand_adp("C12", p, "c12-rand-backlog", p.n(1_500, 40_000), &backlog(&g), &|rng| {
        let n = rng.range(2, 3);
        ((0..n).map(|_| gen_stage(rng, ALL_PKS, 5)).collect(), rng.chance(1, 2))
    }, &nt));
    out.merge(late_parts("C12", p));
    out.merge(rand_adp("C12", p, "c12-rand-backlog-far", p.n(1_000, 30_000), &backlog_far(&g), &|rng| {
        let n = rng.range(2, 3);
        ((0..n).map(|_| gen_stage(rng, ALL_PKS, 5)).collect(), rng.chance(1, 2))
    }, &nt));
    out
}

pub fn run_c13(p: &Params) -> Outcome {
    let nt = |f: &AFacts| f.batches_out >= 1 && f.multi_batches_in >= 1;
    // single stages and pairs, batched, transaction-rich source alphabet
    let grid: Vec<Stage> = {
        let mut v = vec![];
        for kind in [Kind::Head, Kind::Tail, Kind::Skip] {
            for n in [0usize, 1, 2, 3] {
                v.push(Stage::Lim { kind, pk: PK::Static, n, queue: false });
            }
            v.push(Stage::Lim { kind, pk: PK::DynInit, n: 2, queue: true });
            v.push(Stage::Lim { kind, pk: PK::Dyn, n: 0, queue: false });
        }
        v.extend([Stage::Filter(0b0101), Stage::FilterMap(0b0110), Stage::Sort, Stage::SortByKey]);
        v
    };
    let mut chains: Vec<Vec<Stage>> = grid.iter().map(|s| vec![*s]).collect();
    if p.thorough {
        for a in &grid {
            for b in &grid {
                chains.push(vec![*a, *b]);
            }
        }
    }
    let inits: Vec<Vec<u32>> = vec![vec![], vec![6, 1], vec![3, 8, 2, 5]];
    let mut roots = vec![];
    for chain in &chains {
        for init in &inits {
            for (eager, cap) in [(true, 16usize), (false, 16), (false, 2)] {
                roots.push(ARoot { chain: chain.clone(), batched: true, eager, cap, init: init.clone() });
            }
        }
    }
    let txn_alpha = |r: &ARoot, m: &[u32], step: usize| -> Vec<AOp> {
        let len = m.len();
        let v0 = (9 + 4 * step) as u32 % 12;
        let v1 = (2 + 7 * step) as u32 % 12;
        let singles = [
            VOp::PushBack(v0),
            VOp::PushFront(v1),
            VOp::PopFront,
            VOp::PopBack,
            VOp::Clear,
            VOp::Insert(len / 2, v0),
            VOp::Truncate(1),
            VOp::Append(vec![v1, v0]),
        ];
        let mut a: Vec<AOp> = vec![];
        for x in &singles {
            a.push(AOp::Src(x.clone()));
            for y in &singles {
                a.push(AOp::Src(VOp::Txn(vec![x.clone(), y.clone()], TxEnd::Commit)));
            }
        }
        a.push(AOp::Src(VOp::Txn(
            vec![VOp::PushBack(v0), VOp::PushBack(v1), VOp::PushBack(v0 + 1), VOp::PopFront],
            TxEnd::Commit,
        )));
        a.extend(param_ops(r, 3));
        if !r.eager {
            a.push(AOp::Poll(0));
        }
        a
    };
    let depth = 2;
    let mut out = exh_adp(
        "C13",
        p,
        "c13-exh",
        &roots,
        depth,
        &txn_alpha,
        &nt,
        "batched subscriber; 22 single stages (and all pairs in the thorough tier) x 3 initial vectors x {drain after every op, lazy cap 16, lazy cap 2}; alphabet = 8 direct operations, all 64 two-operation transactions over them, one 4-operation transaction, limit values 0..3",
    );
    let g = AGen {
        caps: &[2, 4, 16],
        maxlen: 10,
        vmax: 14,
        min_ops: 4,
        max_ops: 30,
        txn_pct: 60,
        param_pct: 15,
        poll_pct: 30,
        close_pm: 5,
        drop_pm: 8,
        trav: true,
        init_max: 6,
        lazy_only: false,
        far_runs: false,
    };
    out.merge(rand_adp(
        "C13",
        p,
        "c13-rand",
        p.n(60_000, 2_000_000),
        &g,
        &|rng| {
            let n = rng.range(1, 3);
            ((0..n).map(|_| gen_stage(rng, ALL_PKS, 6)).collect(), true)
        },
        &nt,
    ));
    out.merge(rand_adp("C13", p, "c13-rand-backlog", p.n(1_500, 40_000), &backlog(&g), &|rng| {
        let n = rng.range(1, 3);
        ((0..n).map(|_| gen_stage(rng, ALL_PKS, 6)).collect(), true)
    }, &nt));
    // flavour comparison: fixed parameters, the same history once batched and once unbatched
    let seed = p.seed;
    let gen_name = "c13-flavours";
    let gcmp = AGen { caps: &[64], param_pct: 0, close_pm: 0, ..g.clone() };
    out.merge(p.cases(gen_name, p.n(40_000, 1_000_000), |i, out| {
        let mut rng = Rng::new(mix(seed, mix(hash_of(&gen_name), i)));
        let n = rng.range(1, 3);
        let chain: Vec<Stage> = (0..n)
            .map(|_| loop {
                let s = gen_stage(&mut rng, &[PK::Static, PK::StaticParts], 6);
                if !s.dynamic() {
                    break s;
                }
            })
            .collect();
        let hb = gen_adp_history(&mut rng, chain, true, &gcmp);
        let mut hu = hb.clone();
        hu.batched = false;
        // independent polling pattern for the unbatched run: drain after every op
        hu.eager = true;
        let case = json!({"gen": gen_name, "case": i, "seed": seed});
        let fb = judge_adp("C13", &hb, &p.known, case.clone(), out, &nt);
        let fu = judge_adp("C13", &hu, &p.known, case.clone(), out, &|_| false);
        if let (Some(fb), Some(fu)) = (fb, fu) {
            if !fb.lagged && !fu.lagged && fb.known.is_empty() && fu.known.is_empty() {
                out.ev.count("flavour_comparisons");
                let same = fb.top_flat.len() == fu.top_flat.len()
                    && fb.top_flat.iter().zip(&fu.top_flat).all(|(a, b)| a.same_values(b));
                if !same {
                    let mut hist = hb.show();
                    hist.push(format!("batched flattened:   {}", show_diffs(&fb.top_flat)));
                    hist.push(format!("unbatched:           {}", show_diffs(&fu.top_flat)));
                    out.violations.push(Violation {
                        property: "C13".into(),
                        case,
                        history: hist,
                        what: "the batched and the unbatched stream of a fixed-parameter chain delivered different diffs although neither lagged".into(),
                    });
                }
            }
        }
    }));
    // a lag that begins while a batched stream is merging messages is only reachable with a writer on another thread
    if p.part != "seq" {
        out.merge(crate::runners_thr::run_rounds("C13", p, "c13-threads", p.n(1_500, 40_000), crate::runners_thr::round_c08_threads));
    }
    out
}

pub fn run_c14(p: &Params) -> Outcome {
    let nt = |f: &AFacts| f.wake_checks >= 1 && f.diffs_out >= 1;
    let mut singles: Vec<Stage> = vec![];
    for kind in [Kind::Head, Kind::Tail, Kind::Skip] {
        singles.push(Stage::Lim { kind, pk: PK::Static, n: 2, queue: false });
        for queue in [false, true] {
            singles.push(Stage::Lim { kind, pk: PK::DynInit, n: 5, queue });
            singles.push(Stage::Lim { kind, pk: PK::DynInit, n: 1, queue });
            singles.push(Stage::Lim { kind, pk: PK::Dyn, n: 0, queue });
        }
    }
    singles.extend([Stage::Filter(0b0101), Stage::FilterMap(0b0110), Stage::Sort, Stage::SortBy, Stage::SortByKey]);
    let mut chains: Vec<Vec<Stage>> = singles.iter().map(|s| vec![*s]).collect();
    chains.push(vec![]); // the plain subscriber stream itself
    let inits: Vec<Vec<u32>> = vec![vec![], vec![1, 2], vec![1, 2, 3, 4]];
    let roots = roots_for(&chains, &inits, &[(true, 16), (false, 16), (false, 1)]);
    let depth = if p.thorough { 4 } else { 3 };
    let alpha = |r: &ARoot, m: &[u32], step: usize| -> Vec<AOp> {
        let v = (5 + step) as u32;
        let mut a: Vec<AOp> = vec![
            AOp::Src(VOp::PushBack(v)),
            AOp::Src(VOp::PushFront(v)),
            AOp::Src(VOp::PopFront),
            AOp::Src(VOp::Txn(vec![VOp::PushBack(v), VOp::PushBack(v + 1)], TxEnd::Commit)),
            AOp::Src(VOp::Txn(vec![], TxEnd::Commit)),
        ];
        if !m.is_empty() {
            a.push(AOp::Src(VOp::Set(0, v)));
        }
        for (i, s) in r.chain.iter().enumerate() {
            if s.dynamic() {
                for lim in [0usize, 1, 5, 10] {
                    a.push(AOp::Param(i + 1, lim));
                }
                a.push(AOp::CloseParam(i + 1));
            }
        }
        if !r.eager {
            a.push(AOp::Poll(0));
            a.push(AOp::Poll(1));
        }
        a.push(AOp::DropSrc);
        a
    };
    let mut out = exh_adp(
        "C14",
        p,
        "c14-exh",
        &roots,
        depth,
        &alpha,
        &nt,
        "the plain subscriber stream and 26 single adapters (static, dynamic with initial value 1 and 5, purely dynamic; observable- and queue-backed limit streams; filters; sorts) x 3 initial vectors x both flavours x {drain after every op, lazy cap 16, lazy cap 1}; alphabet = 5-6 source operations, limit values {0,1,5,10}, close-limit, polls, drop; a fresh flag waker per poll",
    );
    let g = AGen {
        caps: &[1, 2, 4, 16],
        maxlen: 8,
        vmax: 14,
        min_ops: 4,
        max_ops: 40,
        txn_pct: 15,
        param_pct: 30,
        poll_pct: 35,
        close_pm: 20,
        drop_pm: 10,
        trav: false,
        init_max: 6,
        lazy_only: false,
        far_runs: false,
    };
    out.merge(rand_adp(
        "C14",
        p,
        "c14-rand",
        p.n(100_000, 3_000_000),
        &g,
        &|rng| {
            let n = rng.range(0, 3);
            ((0..n).map(|_| gen_stage(rng, ALL_PKS, 6)).collect(), rng.chance(1, 2))
        },
        &nt,
    ));
    // long histories, and big channels with dozens of updates consumed by a single poll
    let glong = AGen { min_ops: 150, max_ops: 400, caps: &[1, 2, 3, 5, 8, 16], ..g.clone() };
    out.merge(rand_adp("C14", p, "c14-rand-long", p.n(1_200, 30_000), &glong, &|rng| {
        let n = rng.range(0, 2);
        ((0..n).map(|_| gen_stage(rng, ALL_PKS, 6)).collect(), rng.chance(1, 2))
    }, &nt));
    out.merge(rand_adp("C14", p, "c14-rand-backlog", p.n(2_000, 50_000), &backlog(&g), &|rng| {
        let n = rng.range(0, 2);
        let chain = (0..n)
            .map(|_| match rng.below(4) {
                0 => Stage::Filter([0u8, 0b0001, 0b1000, 0b0110][rng.below(4)]),
                1 => Stage::FilterMap([0u8, 0b0010, 0b0100, 0b1001][rng.below(4)]),
                _ => gen_stage(rng, ALL_PKS, 3),
            })
            .collect();
        (chain, rng.chance(1, 2))
    }, &nt));
    out.merge(rand_adp("C14", p, "c14-rand-backlog-far", p.n(1_500, 40_000), &backlog_far(&g), &|rng| {
        let n = rng.range(1, 2);
        ((0..n).map(|_| gen_stage(rng, ALL_PKS, 3)).collect(), rng.chance(1, 2))
    }, &nt));
    out
}

pub fn run_c15(p: &Params) -> Outcome {
    let nt = |f: &AFacts| f.bound_checks >= 1 && f.diffs_out >= 1;
    let mut chains = vec![];
    for kind in [Kind::Head, Kind::Tail] {
        for n in 0..=5usize {
            chains.push(vec![Stage::Lim { kind, pk: PK::Static, n, queue: false }]);
        }
    }
    let roots = roots_for(&chains, &inits(5), &[(true, 16), (false, 16), (false, 1)]);
    let depth = if p.thorough { 4 } else { 3 };
    let alpha = |r: &ARoot, m: &[u32], step: usize| -> Vec<AOp> {
        let mut a = src_alphabet(m, step, &fresh, 7, true);
        if !r.eager {
            a.push(AOp::Poll(0));
        }
        a
    };
    let mut out = exh_adp(
        "C15",
        p,
        "c15-exh",
        &roots,
        depth,
        &alpha,
        &nt,
        "head(n) and tail(n) for n = 0..5 x initial lengths 0..5 x both flavours x {drain after every op, lazy cap 16, lazy cap 1}; every source diff kind with every index and 4 transactions; the length bound is evaluated after every single emitted diff",
    );
    let g = AGen {
        caps: &[1, 2, 4, 16],
        maxlen: 12,
        vmax: 50,
        min_ops: 5,
        max_ops: 50,
        txn_pct: 20,
        param_pct: 0,
        poll_pct: 25,
        close_pm: 0,
        drop_pm: 5,
        trav: true,
        init_max: 6,
        lazy_only: false,
        far_runs: false,
    };
    out.merge(rand_adp(
        "C15",
        p,
        "c15-rand",
        p.n(100_000, 3_000_000),
        &g,
        &|rng| {
            // a fixed-limit head/tail alone or somewhere in a chain
            let lim = gen_lim(rng, &[Kind::Head, Kind::Tail], &[PK::Static, PK::StaticParts], 8);
            let mut chain = vec![];
            for _ in 0..rng.below(2) {
                chain.push(gen_stage(rng, BASIC_PKS, 6));
            }
            chain.push(lim);
            for _ in 0..rng.below(2) {
                chain.push(gen_stage(rng, BASIC_PKS, 6));
            }
            (chain, rng.chance(1, 2))
        },
        &nt,
    ));
    // large vectors: views with dozens of items, sources beyond one imbl chunk (64)
    let gbig = AGen { maxlen: 110, init_max: 90, vmax: 400, max_ops: 30, ..g.clone() };
    out.merge(rand_adp("C15", p, "c15-rand-large", p.n(6_000, 200_000), &gbig, &|rng| (vec![gen_lim(rng, &[Kind::Head, Kind::Tail], &[PK::Static], 90)], rng.chance(1, 2)), &nt));
    // giant vectors: thousands of items (imbl's tree gets a third level above 4096), limits and views in the thousands
    let ggiant = AGen { maxlen: 9500, init_max: 9000, vmax: 20_000, min_ops: 8, max_ops: 30, ..g.clone() };
    out.merge(rand_adp("C15", p, "c15-rand-giant", p.n(150, 4_000), &ggiant, &|rng| (vec![gen_lim(rng, &[Kind::Head, Kind::Tail], &[PK::Static], 9000)], rng.chance(1, 2)), &nt));
    // thousands of messages waiting in a channel of thousands and transactions of thousands of diffs (small
    // vectors): one poll of a batched chain handles thousands of diffs
    let gscale = AGen { caps: &[2048, 4096, 8192], maxlen: 40, init_max: 30, vmax: 20_000, min_ops: 1100, max_ops: 2600, poll_pct: 1, txn_pct: 10, lazy_only: true, drop_pm: 0, close_pm: 0, ..g.clone() };
    out.merge(rand_adp("C15", p, "c15-rand-scale", p.n(100, 3_000), &gscale, &|rng| (vec![gen_lim(rng, &[Kind::Head, Kind::Tail], &[PK::Static], 40)], rng.chance(2, 3)), &nt));
    // colossal vectors: more than 2^16 items (16-bit indices, offsets and counters inside the library overflow here)
    let gcol = AGen { caps: &[16], maxlen: 71_000, init_max: 70_000, vmax: 20_000, min_ops: 6, max_ops: 16, txn_pct: 5, ..g.clone() };
    out.merge(rand_adp("C15", p, "c15-rand-colossal", p.n(24, 400), &gcol, &|rng| (vec![gen_lim(rng, &[Kind::Head, Kind::Tail], &[PK::Static], 70_000)], rng.chance(1, 2)), &nt));
    // long histories on small vectors (accumulating state, repeated Resets, many limit changes)
    let glong = AGen { min_ops: 150, max_ops: 400, caps: &[1, 2, 3, 5, 8, 16], ..g.clone() };
    out.merge(rand_adp("C15", p, "c15-rand-long", p.n(1_200, 30_000), &glong, &|rng| (vec![gen_lim(rng, &[Kind::Head, Kind::Tail], &[PK::Static], 8)], rng.chance(1, 2)), &nt));
    out.merge(rand_adp("C15", p, "c15-rand-backlog", p.n(1_500, 40_000), &backlog(&g), &|rng| (vec![gen_lim(rng, &[Kind::Head, Kind::Tail], &[PK::Static, PK::StaticParts], 8)], rng.chance(1, 2)), &nt));
    out.merge(late_parts("C15", p));
    out.merge(rand_adp("C15", p, "c15-rand-backlog-far", p.n(1_000, 30_000), &backlog_far(&g), &|rng| (vec![gen_lim(rng, &[Kind::Head, Kind::Tail], &[PK::Static, PK::StaticParts], 5)], rng.chance(1, 2)), &nt));
    out
}

// ---------------------------------------------------------------------------------------------
// An adapter that is already in use is handed on as an observer (`VectorObserver::into_parts` on the adapter
// itself) - also in the middle of a drain, when it has handed out only part of what one source update became.
// Whoever receives (values, stream) starts from `values`: values + everything the stream yields from then on
// must be the adapter's view of the source.

fn late_parts_case(kind: Kind, dynamic: bool, limit0: usize, init: &[u32], op1: &VOp, new_limit: Option<usize>, taken: usize, op2: &VOp) -> Result<u64, String> {
    use eyeball::Observable;
    use eyeball_im::{ObservableVector, VectorDiff};
    use eyeball_im_util::vector::{VectorObserver, VectorObserverExt};
    use futures_core::Stream;
    use imbl::Vector;
    use std::task::{Context, Poll};

    fn drain<S: Stream<Item = VectorDiff<u32>> + Unpin>(s: &mut S, view: &mut Vector<u32>, max: usize, bound: Option<usize>) -> Result<(usize, bool), String> {
        let (_f, w) = flag_waker();
        let mut cx = Context::from_waker(&w);
        let mut n = 0;
        loop {
            if max != 0 && n >= max {
                return Ok((n, false));
            }
            match std::pin::Pin::new(&mut *s).poll_next(&mut cx) {
                Poll::Ready(Some(d)) => {
                    let ok = std::panic::catch_unwind(std::panic::AssertUnwindSafe(|| {
                        let mut v = view.clone();
                        d.clone().apply(&mut v);
                        v
                    }));
                    match ok {
                        Ok(v) => *view = v,
                        Err(_) => return Err(format!("diff {d:?} is not applicable to the view {:?} built from the handed-out values and the diffs so far", view.iter().collect::<Vec<_>>())),
                    }
                    if let Some(b) = bound {
                        if view.len() > b {
                            return Err(format!("[C15] the view holds {} items after {d:?}, the fixed limit is {b}", view.len()));
                        }
                    }
                    n += 1;
                }
                Poll::Ready(None) => return Ok((n, true)),
                Poll::Pending => return Ok((n, false)),
            }
        }
    }
    // the limit in force after the first step (a limit change instead of a source operation, dynamic forms only)
    let limit = new_limit.unwrap_or(limit0);
    let expect = |m: &[u32]| -> Vec<u32> {
        match kind {
            Kind::Head => m.iter().take(limit).copied().collect(),
            Kind::Tail => m[m.len().saturating_sub(limit)..].to_vec(),
            Kind::Skip => m.iter().skip(limit).copied().collect(),
        }
    };
    let mut ob: ObservableVector<u32> = ObservableVector::with_capacity(16);
    ob.append(init.iter().copied().collect());
    let mut model = init.to_vec();
    let mut lim = Observable::new(limit0);
    let bound = if !dynamic && kind != Kind::Skip { Some(limit0) } else { None };
    macro_rules! body {
        ($a:expr, $v0:expr) => {{
            let mut a = $a;
            let mut view: Vector<u32> = $v0;
            drain(&mut a, &mut view, 0, bound)?;
            match new_limit {
                Some(l) => {
                    Observable::set(&mut lim, l);
                }
                None => apply_on_vec(&mut ob, &mut model, op1),
            }
            // the first consumer takes `taken` items and stops (0 = none)
            let mut events = 0u64;
            if taken > 0 {
                events += drain(&mut a, &mut view, taken, bound)?.0 as u64;
            }
            let (vals, mut s2) = VectorObserver::into_parts(a);
            let mut view2: Vector<u32> = vals;
            if let Some(b) = bound {
                if view2.len() > b {
                    return Err(format!("[C15] into_parts handed out {} items, the fixed limit is {b}", view2.len()));
                }
            }
            events += drain(&mut s2, &mut view2, 0, bound)?.0 as u64;
            let got: Vec<u32> = view2.iter().copied().collect();
            if got != expect(&model) {
                return Err(format!(
                    "after {op1:?}, {taken} item(s) taken, then into_parts and a drain: values + diffs give {got:?}, the adapter's view of the source {model:?} is {:?}",
                    expect(&model)
                ));
            }
            apply_on_vec(&mut ob, &mut model, op2);
            events += drain(&mut s2, &mut view2, 0, bound)?.0 as u64;
            let got: Vec<u32> = view2.iter().copied().collect();
            if got != expect(&model) {
                return Err(format!("after the further update {op2:?}: values + diffs give {got:?}, expected {:?}", expect(&model)));
            }
            Ok(events)
        }};
    }
    let sub = ob.subscribe().into_values_and_stream();
    match (kind, dynamic) {
        (Kind::Head, true) => {
            let (v0, a) = sub.dynamic_head_with_initial_value(limit0, Observable::subscribe(&lim));
            body!(a, v0)
        }
        (Kind::Tail, true) => {
            let (v0, a) = sub.dynamic_tail_with_initial_value(limit0, Observable::subscribe(&lim));
            body!(a, v0)
        }
        (Kind::Skip, true) => {
            let (v0, a) = sub.dynamic_skip_with_initial_count(limit0, Observable::subscribe(&lim));
            body!(a, v0)
        }
        (Kind::Head, false) => {
            let (v0, a) = sub.head(limit0);
            body!(a, v0)
        }
        (Kind::Tail, false) => {
            let (v0, a) = sub.tail(limit0);
            body!(a, v0)
        }
        (Kind::Skip, false) => {
            let (v0, a) = sub.skip(limit0);
            body!(a, v0)
        }
    }
}

fn apply_on_vec(ob: &mut eyeball_im::ObservableVector<u32>, model: &mut Vec<u32>, op: &VOp) {
    match op {
        VOp::PushBack(v) => ob.push_back(*v),
        VOp::PushFront(v) => ob.push_front(*v),
        VOp::PopBack => {
            ob.pop_back();
        }
        VOp::PopFront => {
            ob.pop_front();
        }
        VOp::Insert(i, v) => ob.insert(*i, *v),
        VOp::Set(i, v) => {
            ob.set(*i, *v);
        }
        VOp::Remove(i) => {
            ob.remove(*i);
        }
        VOp::Truncate(n) => ob.truncate(*n),
        VOp::Clear => ob.clear(),
        VOp::Append(vs) => ob.append(vs.iter().copied().collect()),
        _ => return,
    }
    model_op(model, op);
}

/// every kind x {fixed, dynamic with initial value} x limits 0..4 x initial lengths 0..5 x every single source
/// operation x 0..2 items taken before the adapter is handed on x a second operation
pub fn late_parts(prop: &str, p: &Params) -> Outcome {
    let gen_name = "late-into-parts-exh";
    let mut roots = vec![];
    for kind in [Kind::Head, Kind::Tail, Kind::Skip] {
        for dynamic in [false, true] {
            for limit in 0..=4usize {
                for len in 0..=5usize {
                    roots.push((kind, dynamic, limit, len));
                }
            }
        }
    }
    let mut out = p.cases(gen_name, roots.len() as u64, |ri, out| {
        let (kind, dynamic, limit, len) = roots[ri as usize];
        let init: Vec<u32> = (1..=len as u32).collect();
        let ops1 = src_alphabet(&init, 0, &|_, j| 50 + j as u32, 8, false);
        // first step: a source operation, or (dynamic forms) a change of the limit/count
        let mut firsts: Vec<(VOp, Option<usize>)> = vec![];
        for a1 in &ops1 {
            if let AOp::Src(op1) = a1 {
                firsts.push((op1.clone(), None));
            }
        }
        if dynamic {
            for l in 0..=7usize {
                // (Tail, limit decreased from beyond the length to below it, is the known finding F4 -
                // tail.limit_decrease_beyond_len - which the adapter engine reports; not repeated here)
                let f4 = kind == Kind::Tail && limit > init.len() && init.len() > l && l > 0;
                if l != limit && !f4 {
                    firsts.push((VOp::Clear, Some(l)));
                }
            }
        }
        for (op1, new_limit) in &firsts {
            let mut m = init.clone();
            model_op(&mut m, op1);
            let ops2 = [VOp::PushBack(70), VOp::PushFront(71), VOp::PopFront, VOp::PopBack];
            for taken in 0..=2usize {
                for op2 in &ops2 {
                    out.ev.evaluations += 1;
                    let r = std::panic::catch_unwind(std::panic::AssertUnwindSafe(|| late_parts_case(kind, dynamic, limit, &init, op1, *new_limit, taken, op2)));
                    let r = match r {
                        Ok(r) => r,
                        Err(_) => Err(format!("unexpected panic: {}", last_panic())),
                    };
                    match r {
                        Ok(events) => {
                            out.ev.add("late_into_parts_items", events);
                            if events > 0 {
                                out.ev.nontrivial(hash_of(&(ri, format!("{op1:?}{new_limit:?}{taken}{op2:?}"))));
                            }
                        }
                        Err(what) => {
                            let mine = match what.strip_prefix('[').and_then(|r| r.split_once(']')) {
                                Some((tags, _)) => tags.split('|').any(|t| t == prop),
                                None => prop == "C09" || prop == "C12",
                            };
                            if mine {
                                out.violations.push(Violation {
                                    property: prop.to_string(),
                                    case: json!({"gen": gen_name, "case": ri}),
                                    history: vec![
                                        format!("{kind:?} ({}), limit/count {limit}, source {init:?}", if dynamic { "dynamic with initial value" } else { "fixed" }),
                                        format!(
                                            "{}; first consumer takes {taken} item(s); VectorObserver::into_parts(adapter); drain; {op2:?}; drain",
                                            match new_limit {
                                                Some(l) => format!("limit/count set to {l}"),
                                                None => format!("{op1:?}"),
                                            }
                                        ),
                                    ],
                                    what,
                                });
                                return;
                            } else {
                                out.ev.foreign += 1;
                            }
                        }
                    }
                }
            }
        }
    });
    out.ev.exhaustive_scopes.push(format!(
        "{gen_name}: head/tail/skip x {{fixed, dynamic with initial value}} x limits 0..4 x initial lengths 0..5 x every single source operation with every index x 0..2 items taken by a first consumer before `VectorObserver::into_parts(adapter)` x 4 further operations"
    ));
    out
}
