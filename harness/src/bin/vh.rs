//! `vh <ID> [--tier quick|thorough] [--seed N] [--threads N] [--scale F] [--evidence FILE]
//!          [--replay FILE] [--known FILE]`
//! exit 0 = held on everything explored, 1 = violation (prints VIOLATION line), 2 = inconclusive.

use std::{io::Write, time::Instant};

use eyeball_verif::{common::*, runners_adp, runners_misc, runners_obs, runners_thr, runners_vec, Params};
use serde_json::{json, Value};

struct Spec {
    run: fn(&Params) -> Outcome,
    level: &'static str,
    rule: &'static str,
    assumptions: &'static [&'static str],
}

const BASE_ASSUME: &[&str] = &[
    "the harness's reference models (plain Vec / integer models) are right",
    "imbl, tokio::sync::broadcast, readlock(-tokio), std are trusted as dependencies",
    "only executed histories count: bounded exhaustive sets plus seeded random histories",
];

/// the unwinding histories (a user callback or trait impl panics, the caller catches it and goes on) are judged
/// by every property that speaks about what happens afterwards; they run in the sequential part of a check
fn with_unwind(mut out: Outcome, p: &Params, prop: &'static str) -> Outcome {
    if p.part != "threads" {
        out.merge(eyeball_verif::runners_unwind::run_unwind(p, prop));
    }
    out
}

/// a few histories of tens of thousands of operations on one long-lived object (runners_long.rs)
fn with_marathon(mut out: Outcome, p: &Params, prop: &'static str) -> Outcome {
    if p.part != "threads" {
        out.merge(eyeball_verif::runners_long::run_marathons(p, prop));
    }
    out
}

/// histories whose operations run on three worker threads in turn, one at a time (runners_migrate.rs)
fn with_migrate(mut out: Outcome, p: &Params, prop: &'static str) -> Outcome {
    if p.part != "seq" || p.san() {
        // (threads are involved: counted with the thread parts, which is what the TSan / Miri passes run)
    }
    out.merge(eyeball_verif::runners_migrate::run_migrate(p, prop));
    out
}

/// two adapters driven by one limit observable (runners_pairs.rs)
fn with_pairs(mut out: Outcome, p: &Params, prop: &'static str) -> Outcome {
    out.merge(eyeball_verif::runners_pairs::run_pairs(p, prop));
    out
}

fn spec(id: &str) -> Option<Spec> {
    Some(match id {
        "C01" => Spec {
            run: |p| with_migrate(with_marathon(with_unwind(runners_thr::run_c01(p), p, "C01"), p, "C01"), p, "C01"),
            level: "exploration",
            rule: "call histories on the real Observable / SharedObservable (sync flavour) with a payload whose hash ignores one field; every return value and every poll result is compared with a version-counter model (value, version, per-subscriber observed version). Exhaustive over short sequences of the ~35-operation state-dependent alphabet, random long histories with <=5 subscribers, <=4 clones, write/read guards; plus a director scenario (subscribe + first poll on one thread || write accesses that do not notify on another, every order at the pause points). Non-trivial = the history contains a Ready poll, a Pending poll and a conditional setter that did not store; distinct = hash of the history.",
            assumptions: BASE_ASSUME,
        },
        "C16" => Spec {
            run: |p| with_migrate(with_marathon(with_unwind(runners_thr::run_c16(p), p, "C16"), p, "C16"), p, "C16"),
            level: "exploration",
            rule: "the C01/C02/C03 histories executed on the async-lock flavour with every future driven by a hand-rolled executor, judged by the same model and compared call by call with the sync run of the same history; plus randomised guard scripts (write guard held across subscriber polls; read guard held while writers wait) with their own oracle. Non-trivial = Ready and Pending polls both observed (histories), or the script ran to its end (scripts); distinct = hash of (flavour, history) / of the script log.",
            assumptions: BASE_ASSUME,
        },
        "C18" => Spec {
            run: runners_misc::run_c18,
            level: "exploration",
            rule: "cases = (vector, diff) pairs, each checked for apply-vs-model, panic-exactly-when-documented, identity mapping and commutation under three mappings. Exhaustive for vectors up to length 4 (6 thorough) x all eleven diff kinds x all indices/lengths 0..len+1 x payload sizes 0..3; random vectors up to length 200. Non-trivial = the diff changes the vector or must panic; distinct = hash of (vector, diff).",
            assumptions: BASE_ASSUME,
        },
        "C19" => Spec {
            run: |p| with_migrate(with_marathon(with_unwind(runners_obs::run_c19(p), p, "C19"), p, "C19"), p, "C19"),
            level: "exploration",
            rule: "histories of clone / subscribe / subscriber clone / downgrade / upgrade / weak clone / into_shared / drops (plus sets and polls) on both lock flavours; after every single operation observable_count, subscriber_count, strong_count, weak_count of every live handle are compared with integer counters. Non-trivial = at least two count checks and one subscriber; distinct = hash of (flavour, history).",
            assumptions: BASE_ASSUME,
        },
        "C02" => Spec {
            run: |p| with_migrate(with_marathon(runners_thr::run_c02(p), p, "C02"), p, "C02"),
            level: "exploration",
            rule: "(a) operation granularity: call histories on Observable/SharedObservable with up to 3 subscribers; after every single operation every subscriber whose last poll was Pending must have had that poll's waker woken if a notifying update or the close happened since; exhaustive short sequences + random. (b) threads: director scenarios (poll || set, poll || close, two polls || set, poll || drop-non-last-then-set, poll || set || close, for the unique and the shared observable) re-executed for every order in which the roles pass the pause points (incl. the clone of the supplied waker), verdict at join from poll results and wake flags only; plus free-running rounds (writers and subscribers on park/unpark executors, hook-injected yields) with the timing-free quiescence oracle. Non-trivial = a wake obligation was evaluated (a), a distinct executed schedule (b), a round with at least one Pending poll (free); distinct = hash of history / schedule trace / round.",
            assumptions: BASE_ASSUME,
        },
        "C03" => Spec {
            run: |p| with_migrate(with_marathon(with_unwind(runners_thr::run_c03(p), p, "C03"), p, "C03"), p, "C03"),
            level: "exploration",
            rule: "(a) histories of clone / drop / downgrade / upgrade / weak clone / into_shared / subscribe / set / poll against an owner-count model: poll is None iff no owner exists (also after reset, repeatedly), upgrade succeeds iff an owner exists, get/read return the last value after the end; exhaustive short sequences + random. (b) director scenarios: two and three threads dropping the last clones, last drop || upgrade (then set through the upgraded handle), drop || upgrade || poll - every order at sdrop:enter, sdrop:decided, upgrade:between, close:*, poll:*; verdict at join: every subscriber ended iff no handle is left. (c) free-running rounds. Non-trivial / distinct as C02.",
            assumptions: BASE_ASSUME,
        },
        "C04" => Spec {
            run: |p| with_migrate(runners_thr::run_c04(p), p, "C04"),
            level: "exploration",
            rule: "recorded histories of 2-4 real threads (call/return ticks from one atomic clock, per-thread logs merged after join) checked offline: W1 register with unique values (set returns its predecessor => total order reconstructed exactly; real-time order, no stale/early reads, conditional setters store exactly when different, contended ids), W2 append-only list (no lost closure, per-thread and real-time order, every read a prefix within completed/invoked bounds, subscribers monotone and handed the final value), W3 read/write guards exclude complete operations; plus the lock-exclusion invariant evaluated by the director in every forced schedule. Non-trivial = a round that recorded events / a distinct schedule; distinct = hash of (workload, round seed, event count) / schedule trace.",
            assumptions: BASE_ASSUME,
        },
        "C20" => Spec {
            run: |p| with_migrate(runners_misc::run_c20(p), p, "C20"),
            level: "exploration",
            rule: "bulk random histories of the vector engine (streams dropped mid-batch, while lagging, after the vector), the adapter engine (chains of 1-3 stages, both flavours) and the observable engine (both lock flavours, into_shared with and without subscribers); every element is a Tracked value whose construction, clones and drops are recorded in a table keyed by instance id: no double drop, no use after drop, table empty once everything of the history is gone. Non-trivial = the history published at least one message / diff / update; distinct = hash of the history. The same workload runs under Miri (leak check, tree borrows) and under ASan/LSan, see sanitizer_passes.",
            assumptions: BASE_ASSUME,
        },
        "C05" => Spec {
            run: |p| with_migrate(with_pairs(with_marathon(with_unwind(runners_vec::run_c05(p), p, "C05"), p, "C05"), p, "C05"), p, "C05"),
            level: "exploration",
            rule: "histories = initial vector + source operations + subscriptions + polls on a real ObservableVector<Tracked>; exhaustive short sequences and seeded random long ones. After every mutating call a reference batched subscriber is polled (one item per message); every other subscriber's items are compared with the undelivered messages. Non-trivial = at least 2 messages published and both a Ready and a Pending poll observed; distinct = hash of (capacity, initial vector, operation list).",
            assumptions: BASE_ASSUME,
        },
        "C06" => Spec {
            run: |p| with_migrate(with_marathon(with_unwind(runners_thr::run_c06(p), p, "C06"), p, "C06"), p, "C06"),
            level: "exploration",
            rule: "as C05 with capacities 1,2,3,5,6,16,1000 and lazy polling patterns; the harness counts undelivered messages per subscriber. Non-trivial = a Reset was delivered or a subscriber was polled with a backlog of at least capacity-1 messages; distinct = hash of the history. A run without any Reset is INCONCLUSIVE. Plus a cross-thread variant (writer thread, every subscriber stream on its own park/unpark thread): a stream that is Pending after the writer finished, and not woken, must hold the vector's contents; at the end every replica equals the final contents.",
            assumptions: BASE_ASSUME,
        },
        "C07" => Spec {
            run: |p| with_pairs(with_marathon(with_unwind(runners_vec::run_c07(p), p, "C07"), p, "C07"), p, "C07"),
            level: "fault_enumeration",
            rule: "fault = abandoning a transaction: every body (closed under prefixes, so every abandon point) x every ending (commit, drop, rollback+drop, rollback+commit, rollback+more+commit/drop) x subscriber sets x capacities, then random histories rich in transactions. Non-trivial = the history ran at least one transaction to its end; distinct = hash of the history.",
            assumptions: BASE_ASSUME,
        },
        "C08" => Spec {
            run: |p| with_migrate(with_unwind(runners_thr::run_c08(p), p, "C08"), p, "C08"),
            level: "exploration",
            rule: "history, then drop of the ObservableVector, then every stream drained to None; plus a cross-thread variant (vector on one thread, every subscriber stream on its own park/unpark thread, hook-injected yields) whose verdict is taken at join. Non-trivial = a stream ended after having been pending (woken by the drop), behind, lagged or in the middle of a batch; distinct = hash of the history.",
            assumptions: BASE_ASSUME,
        },
        "C09" => Spec {
            run: |p| with_marathon(with_pairs(runners_adp::run_c09(p), p, "C09"), p, "C09"),
            level: "exploration",
            rule: "histories = initial vector + adapter (head/tail/skip, static / dynamic with initial value / purely dynamic, observable- or queue-backed limit stream) + source operations, limit changes, polls, close-limit, drop, on both stream flavours; a tap after the source stream and after the adapter logs every item; at every Pending of the adapter the rebuilt view is compared with first/last/all-but-first p items of the vector's contents (latest announced p), every diff is applied through a checked replica, and the end of the stream is compared with the end of the source. Non-trivial = the adapter emitted at least one diff, at least one quiescent check ran and a non-empty view was checked; distinct = hash of the whole history.",
            assumptions: BASE_ASSUME,
        },
        "C10" => Spec {
            run: |p| with_marathon(runners_adp::run_c10(p), p, "C10"),
            level: "exploration",
            rule: "as C09 for filter / filter_map (v -> v+100 on kept items) with the predicate given as a bit mask over v%4 (all 16 masks). Non-trivial as C09.",
            assumptions: BASE_ASSUME,
        },
        "C11" => Spec {
            run: |p| with_marathon(runners_adp::run_c11(p), p, "C11"),
            level: "exploration",
            rule: "as C09 for sort / sort_by(reverse) / sort_by_key(v/2); oracle = same multiset as the source and adjacent items ordered under the comparison (tie order is free). Non-trivial as C09.",
            assumptions: BASE_ASSUME,
        },
        "C12" => Spec {
            run: |p| with_marathon(runners_adp::run_c12(p), p, "C12"),
            level: "exploration",
            rule: "chains of 2-3 stages, each stage boxed with a tap below it; at every quiescent point (and for the initial values) every stage's replica must be that stage's view of the replica of the stage below. Non-trivial = at least one quiescent check with two non-empty stage views; distinct = hash of the whole history (chain included).",
            assumptions: BASE_ASSUME,
        },
        "C13" => Spec {
            run: |p| with_marathon(runners_adp::run_c13(p), p, "C13"),
            level: "exploration",
            rule: "batched subscriber, transaction-rich histories; after every batch at every tap the replica must be the stage's view of a state its input had at a batch boundary (source: a state between top-level operations), no batch may be empty, and for fixed-parameter chains the flattened batched diffs must equal the unbatched diffs of the same history. Non-trivial = a multi-diff source batch reached the chain and the top stage emitted a batch; distinct = hash of the history.",
            assumptions: BASE_ASSUME,
        },
        "C14" => Spec {
            run: |p| with_migrate(with_marathon(with_pairs(runners_adp::run_c14(p), p, "C14"), p, "C14"), p, "C14"),
            level: "exploration",
            rule: "every poll of the observed stream gets a fresh flag waker; whenever a poll is Ready (item or end) and the previous poll was Pending, the previous poll's waker must have been woken; evaluated in 'drain after every operation' and in lazy mode, for the plain stream, every adapter and random chains, with source updates, limit changes, limit-stream end and drop of the source as inputs. Non-trivial = at least one such implication was evaluated and the stream emitted something; distinct = hash of the history.",
            assumptions: BASE_ASSUME,
        },
        "C15" => Spec {
            run: |p| with_marathon(runners_adp::run_c15(p), p, "C15"),
            level: "exploration",
            rule: "fixed-limit head(n)/tail(n), alone and as a stage of random chains, both flavours: after every single emitted diff (inside batches too) and for the initial values len(view) <= n. Non-trivial = at least one per-diff bound check ran and the adapter emitted a diff; distinct = hash of the history.",
            assumptions: BASE_ASSUME,
        },
        "C17" => Spec {
            run: |p| with_marathon(runners_vec::run_c17(p), p, "C17"),
            level: "exploration",
            rule: "every mutator with every index 0..len+2 directly and inside transactions, all traversal decision sequences over {keep,set,remove,set-then-remove,stop} for lengths <= 5 (6 thorough), plus random histories; return values, contents, panics and visiting order (by element id) compared with a plain Vec model. Non-trivial = the history contained an out-of-range panic, a traversal that mutated, or a documented no-op; distinct = hash of the history.",
            assumptions: BASE_ASSUME,
        },
        "MARATHON" => Spec {
            run: |p| {
                let prop: &'static str = Box::leak(std::env::var("UNWIND_PROP").unwrap_or("C05".into()).into_boxed_str());
                eyeball_verif::runners_long::run_marathons(p, prop)
            },
            level: "exploration",
            rule: "debug entry: the marathons alone, judged for the property named by UNWIND_PROP",
            assumptions: BASE_ASSUME,
        },
        "MIGRATE" => Spec {
            run: |p| {
                let prop: &'static str = Box::leak(std::env::var("UNWIND_PROP").unwrap_or("C01".into()).into_boxed_str());
                eyeball_verif::runners_migrate::run_migrate(p, prop)
            },
            level: "exploration",
            rule: "debug entry: the thread-migration histories alone, judged for the property named by UNWIND_PROP",
            assumptions: BASE_ASSUME,
        },
        "UNWIND" => Spec {
            run: |p| {
                let prop: &'static str = Box::leak(std::env::var("UNWIND_PROP").unwrap_or("C20".into()).into_boxed_str());
                eyeball_verif::runners_unwind::run_unwind(p, prop)
            },
            level: "exploration",
            rule: "debug entry: the unwinding histories alone, judged for the property named by UNWIND_PROP",
            assumptions: BASE_ASSUME,
        },
        _ => return None,
    })
}

fn main() {
    let args: Vec<String> = std::env::args().collect();
    if args.len() < 2 {
        eprintln!("usage: vh <ID> [--tier T] [--seed N] [--threads N] [--scale F] [--evidence F] [--replay F] [--known F]");
        std::process::exit(2);
    }
    let id = args[1].clone();
    let mut tier = std::env::var("VERIF_TIER").unwrap_or_else(|_| "quick".into());
    let mut seed: u64 = std::env::var("VERIF_SEED").ok().and_then(|s| s.parse().ok()).unwrap_or(1);
    let mut threads = std::thread::available_parallelism().map(|n| n.get()).unwrap_or(4);
    let mut scale = 1.0f64;
    let mut evidence: Option<String> = None;
    let mut replay: Option<String> = None;
    let mut known_path = "/verif/known-findings.txt".to_string();
    let mut part = "all".to_string();
    let mut san_cases: Option<u64> = None;
    let mut max_schedules: Option<usize> = None;
    let mut replay_dir = "/verif/replays".to_string();
    let mut lite = false;
    let mut i = 2;
    while i < args.len() {
        let a = args[i].as_str();
        let v = args.get(i + 1).cloned().unwrap_or_default();
        match a {
            "--tier" => tier = v,
            "--seed" => seed = v.parse().unwrap_or(1),
            "--threads" => threads = v.parse().unwrap_or(1),
            "--scale" => scale = v.parse().unwrap_or(1.0),
            "--evidence" => evidence = Some(v),
            "--replay" => replay = Some(v),
            "--known" => known_path = v,
            "--part" => part = v,
            "--san-cases" => san_cases = v.parse().ok(),
            "--max-schedules" => max_schedules = v.parse().ok(),
            "--t-block-ms" => eyeball_verif::engine_thr::T_BLOCK_MS.store(v.parse().unwrap_or(12), std::sync::atomic::Ordering::SeqCst),
            "--replay-dir" => replay_dir = v,
            "--lite" => {
                lite = true;
                i += 1;
                continue;
            }
            _ => {
                eprintln!("unknown argument {a}");
                std::process::exit(2);
            }
        }
        i += 2;
    }
    if id == "WARMUP" {
        println!("warm (element size {} bytes)", std::mem::size_of::<eyeball_verif::common::Tracked>());
        std::process::exit(0);
    }
    let Some(spec) = spec(&id) else {
        println!("INCONCLUSIVE: unknown property {id}");
        std::process::exit(2);
    };
    let mut p = Params {
        thorough: tier == "thorough",
        seed,
        threads,
        replay: None,
        scale,
        known: Known::load(&known_path),
        part,
        san_cases,
        max_schedules,
        lite,
    };
    if san_cases.is_some() {
        eyeball_verif::engine_thr::SMALL.store(true, std::sync::atomic::Ordering::SeqCst);
    }
    if let Some(path) = &replay {
        let txt = std::fs::read_to_string(path).expect("cannot read replay file");
        let v: Value = serde_json::from_str(&txt).expect("replay file is not JSON");
        let case = &v["case"];
        p.seed = case["seed"].as_u64().unwrap_or(v["seed"].as_u64().unwrap_or(seed));
        p.thorough = v["tier"].as_str() == Some("thorough");
        p.replay = Some((case["gen"].as_str().unwrap_or("").to_string(), case["case"].as_u64().unwrap_or(0)));
        println!("replaying {} case {} (seed {}, tier {})", p.replay.as_ref().unwrap().0, p.replay.as_ref().unwrap().1, p.seed, v["tier"]);
    }
    install_quiet_panic_hook();
    let t0 = Instant::now();
    let mut out = (spec.run)(&p);
    out.ev.distinct.compact();
    let wall = t0.elapsed().as_secs_f64();

    for (sig, n) in &out.ev.known_hits {
        let text = p.known.text.get(&(id.clone(), sig.clone())).cloned().unwrap_or_default();
        println!("KNOWN-FINDING: property={id} sig={sig} hits={n} {text}");
    }
    let mut code = 0;
    if !out.violations.is_empty() {
        code = 1;
        let _ = std::fs::create_dir_all(&replay_dir);
        for (k, v) in out.violations.iter().enumerate().take(5) {
            let path = format!("{replay_dir}/{id}-{}-{k}.json", std::process::id());
            let body = json!({
                "property": id, "tier": if p.thorough {"thorough"} else {"quick"}, "seed": p.seed,
                "case": v.case, "history": v.history, "what": v.what,
                "replay_cmd": format!("./check {id} --replay {path}"),
            });
            let _ = std::fs::write(&path, serde_json::to_string_pretty(&body).unwrap());
            println!("VIOLATION property={id} replay={path}");
            println!("  what: {}", v.what);
            println!("  history: {}", v.history.join(" ; "));
        }
    } else if !out.inconclusive.is_empty() {
        code = 2;
        for m in &out.inconclusive {
            println!("INCONCLUSIVE: property={id} {m}");
        }
    }
    if replay.is_none() {
        let ev = evidence_json(&id, if p.thorough { "thorough" } else { "quick" }, p.seed, spec.level, spec.rule, spec.assumptions, &out, wall);
        if let Some(path) = &evidence {
            let mut f = std::fs::File::create(path).expect("cannot write evidence file");
            f.write_all(serde_json::to_string_pretty(&ev).unwrap().as_bytes()).unwrap();
        }
        println!("SUMMARY {}", serde_json::to_string(&json!({
            "property": id, "evaluations": out.ev.evaluations, "distinct_nontrivial": out.ev.distinct.len(),
            "violations": out.violations.len(), "foreign": out.ev.foreign, "wall_s": wall, "events": out.ev.events,
        })).unwrap());
    }
    std::process::exit(code);
}
