//! Pieces shared by all engines: rng, wakers, the instrumented element type, checked replicas,
//! evidence bookkeeping, violations and known findings.

use std::{
    cell::RefCell,
    collections::{BTreeMap, BTreeSet, HashSet},
    future::Future,
    hash::{Hash, Hasher},
    pin::Pin,
    sync::{
        atomic::{AtomicU64, Ordering as AO},
        Arc,
    },
    task::{Context, Poll, Wake, Waker},
};

use eyeball_im::VectorDiff;
use serde_json::{json, Value};

// ---------------------------------------------------------------------------------------------
// rng

#[derive(Clone, Debug)]
pub struct Rng(pub u64);

pub fn mix(a: u64, b: u64) -> u64 {
    let mut x = a ^ b.wrapping_mul(0x9E37_79B9_7F4A_7C15) ^ 0xD1B5_4A32_D192_ED03;
    x ^= x >> 30;
    x = x.wrapping_mul(0xBF58_476D_1CE4_E5B9);
    x ^= x >> 27;
    x = x.wrapping_mul(0x94D0_49BB_1331_11EB);
    x ^= x >> 31;
    x
}

impl Rng {
    pub fn new(seed: u64) -> Self {
        Rng(mix(seed, 0x1234_5678) | 1)
    }
    pub fn next(&mut self) -> u64 {
        let mut x = self.0;
        x ^= x >> 12;
        x ^= x << 25;
        x ^= x >> 27;
        self.0 = x;
        x.wrapping_mul(0x2545_F491_4F6C_DD1D)
    }
    /// uniform in 0..n (n > 0)
    pub fn below(&mut self, n: usize) -> usize {
        ((self.next() >> 11) % (n as u64)) as usize
    }
    pub fn range(&mut self, lo: usize, hi_incl: usize) -> usize {
        lo + self.below(hi_incl - lo + 1)
    }
    pub fn chance(&mut self, num: usize, den: usize) -> bool {
        self.below(den) < num
    }
    pub fn pick<'a, T>(&mut self, xs: &'a [T]) -> &'a T {
        &xs[self.below(xs.len())]
    }
}

// ---------------------------------------------------------------------------------------------
// wakers: a fresh flag waker per poll

#[derive(Debug, Default)]
pub struct FlagWaker {
    pub wakes: AtomicU64,
    pub thread: Option<std::thread::Thread>,
}

impl Wake for FlagWaker {
    fn wake(self: Arc<Self>) {
        self.wake_by_ref();
    }
    fn wake_by_ref(self: &Arc<Self>) {
        self.wakes.fetch_add(1, AO::SeqCst);
        if let Some(t) = &self.thread {
            t.unpark();
        }
    }
}

impl FlagWaker {
    pub fn woken(&self) -> bool {
        self.wakes.load(AO::SeqCst) > 0
    }
}

pub fn flag_waker() -> (Arc<FlagWaker>, Waker) {
    let f = Arc::new(FlagWaker::default());
    (f.clone(), Waker::from(f))
}

thread_local! {
    static TASK_WAKER: (Arc<FlagWaker>, Waker) = flag_waker();
}
/// One waker per worker thread that outlives every history run on it: "the same task" polling one object after
/// another (anything the library remembers about a waker across objects - a registration cache keyed by an
/// address that a later object re-uses - meets the very same waker again). Wakes are judged by counts.
pub fn task_waker() -> (Arc<FlagWaker>, Waker) {
    TASK_WAKER.with(|w| (w.0.clone(), w.1.clone()))
}

/// Two wakers that share one data pointer and differ only in their vtable (what a static or allocation-free
/// executor hands out: the task table is the data, the vtable says which task): `Waker::data()` is equal, `will_wake`
/// is false. Each counts its own wakes.
#[derive(Default)]
pub struct Twin {
    pub wakes: [AtomicU64; 2],
}
macro_rules! twin_vtable {
    ($name:ident, $k:expr, $clone:ident, $wake:ident, $wake_ref:ident) => {
        unsafe fn $clone(p: *const ()) -> std::task::RawWaker {
            Arc::increment_strong_count(p as *const Twin);
            std::task::RawWaker::new(p, &$name)
        }
        unsafe fn $wake(p: *const ()) {
            let a = Arc::from_raw(p as *const Twin);
            a.wakes[$k].fetch_add(1, AO::SeqCst);
        }
        unsafe fn $wake_ref(p: *const ()) {
            (*(p as *const Twin)).wakes[$k].fetch_add(1, AO::SeqCst);
        }
        static $name: std::task::RawWakerVTable = std::task::RawWakerVTable::new($clone, $wake, $wake_ref, twin_drop);
    };
}
unsafe fn twin_drop(p: *const ()) {
    drop(Arc::from_raw(p as *const Twin));
}
twin_vtable!(TWIN_A, 0, twin_clone_a, twin_wake_a, twin_wake_ref_a);
twin_vtable!(TWIN_B, 1, twin_clone_b, twin_wake_b, twin_wake_ref_b);
pub fn twin_wakers() -> (Arc<Twin>, [Waker; 2]) {
    let t = Arc::new(Twin::default());
    let mk = |vt: &'static std::task::RawWakerVTable| unsafe {
        let p = Arc::into_raw(t.clone()) as *const ();
        Waker::from_raw(std::task::RawWaker::new(p, vt))
    };
    let w = [mk(&TWIN_A), mk(&TWIN_B)];
    (t, w)
}

pub fn flag_waker_unpark() -> (Arc<FlagWaker>, Waker) {
    let f = Arc::new(FlagWaker { wakes: AtomicU64::new(0), thread: Some(std::thread::current()) });
    (f.clone(), Waker::from(f))
}

/// Poll a future once with a fresh flag waker.
pub fn poll_once<F: Future + ?Sized>(fut: Pin<&mut F>) -> (Poll<F::Output>, Arc<FlagWaker>) {
    let (flag, waker) = flag_waker();
    let mut cx = Context::from_waker(&waker);
    (fut.poll(&mut cx), flag)
}

/// Drive a future that must complete without outside help (async flavour, no guard held).
/// Returns Err if it is still pending after `max` polls.
pub fn block_on<F: Future>(fut: F) -> Result<F::Output, &'static str> {
    let mut fut = std::pin::pin!(fut);
    for _ in 0..8 {
        if let (Poll::Ready(v), _) = poll_once(fut.as_mut()) {
            return Ok(v);
        }
    }
    Err("future still pending after 8 polls")
}

// ---------------------------------------------------------------------------------------------
// instrumented element type (C20). Table keyed by id, thread-local: every sequential history runs
// on one thread; ids are never addresses, so LSan/memcheck/Miri are not blinded.

#[derive(Default)]
pub struct Table {
    /// 0 = unused, 1 = live, 2 = dropped
    state: Vec<u8>,
    /// element tag of every instance (feature `small-elements` keeps it here instead of in the element)
    tags: Vec<u32>,
    pub live: usize,
    pub created: u64,
    pub cloned: u64,
    pub dropped: u64,
    pub faults: Vec<String>,
}

thread_local! {
    pub static TABLE: RefCell<Table> = RefCell::new(Table::default());
}

pub fn table_reset() {
    TABLE.with(|t| {
        let mut t = t.borrow_mut();
        t.state.clear();
        t.tags.clear();
        t.live = 0;
        t.faults.clear();
    });
}

/// (live, faults) – to be called when everything of a history is gone.
pub fn table_finish() -> (usize, Vec<String>, Vec<u32>) {
    TABLE.with(|t| {
        let t = t.borrow();
        let live_ids: Vec<u32> =
            t.state.iter().enumerate().filter(|(_, s)| **s == 1).map(|(i, _)| i as u32).take(8).collect();
        (t.live, t.faults.clone(), live_ids)
    })
}

pub fn table_counts() -> (u64, u64, u64) {
    TABLE.with(|t| {
        let t = t.borrow();
        (t.created, t.cloned, t.dropped)
    })
}

fn table_alloc(cloned: bool, tag: Option<u32>) -> u32 {
    TABLE.with(|t| {
        let mut t = t.borrow_mut();
        let id = t.state.len() as u32;
        t.state.push(1);
        t.tags.push(tag.unwrap_or(id));
        t.live += 1;
        if cloned {
            t.cloned += 1;
        } else {
            t.created += 1;
        }
        id
    })
}

fn table_check_live(id: u32, what: &str) {
    // try_with: thread-local may be gone during thread teardown
    let _ = TABLE.try_with(|t| {
        if let Ok(mut t) = t.try_borrow_mut() {
            match t.state.get(id as usize) {
                Some(1) => {}
                other => {
                    let other = other.copied();
                    t.faults.push(format!("use-after-drop: {what} of id {id} (state {other:?})"));
                }
            }
        }
    });
}

/// `id` identifies the instance (every clone gets a new one; the table tracks instances);
/// `tag` identifies the element the harness created and is copied by `clone`, so that the harness
/// can tell which of several equal-valued elements a replica holds (imbl clones elements freely
/// when chunks are shared, so instance ids say nothing about element identity).
pub struct Tracked {
    pub v: u32,
    pub id: u32,
    /// (with feature `small-elements` the tag lives in the table and the element is 8 bytes: not larger than a
    /// machine word)
    #[cfg(not(feature = "small-elements"))]
    tag_: u32,
    /// the element's size is a build-time parameter of the harness (cargo features `big-elements`: 164 bytes,
    /// `huge-elements`: 4236 bytes), so that code paths chosen by `size_of::<T>()` are driven too
    pub pad: Pad,
}

#[cfg(feature = "huge-elements")]
pub type Pad = [u64; 528];
#[cfg(all(feature = "big-elements", not(feature = "huge-elements")))]
pub type Pad = [u64; 19];
#[cfg(not(any(feature = "big-elements", feature = "huge-elements")))]
pub type Pad = [u64; 0];
#[inline]
fn pad_of(v: u32) -> Pad {
    [v as u64 ^ 0x5a5a_5a5a; std::mem::size_of::<Pad>() / 8]
}

impl Tracked {
    pub fn new(v: u32) -> Self {
        let id = table_alloc(false, None);
        Tracked {
            v,
            id,
            #[cfg(not(feature = "small-elements"))]
            tag_: id,
            pad: pad_of(v),
        }
    }
    pub fn with_tag(v: u32, tag: u32) -> Self {
        Tracked {
            v,
            id: table_alloc(false, Some(tag)),
            #[cfg(not(feature = "small-elements"))]
            tag_: tag,
            pad: pad_of(v),
        }
    }
    /// element identity (copied by `clone`)
    #[cfg(not(feature = "small-elements"))]
    pub fn tag(&self) -> u32 {
        self.tag_
    }
    #[cfg(feature = "small-elements")]
    pub fn tag(&self) -> u32 {
        let id = self.id;
        TABLE.try_with(|t| t.try_borrow().ok().and_then(|t| t.tags.get(id as usize).copied())).ok().flatten().unwrap_or(id)
    }
}

// Armed panics: the `countdown`-th next call of the armed kind (clone / eq / cmp / hash) on this thread panics
// (once), so that histories can unwind out of a user-supplied trait impl in the middle of a library call.
pub const ARM_CLONE: u8 = 1;
pub const ARM_EQ: u8 = 2;
pub const ARM_CMP: u8 = 3;
pub const ARM_HASH: u8 = 4;
thread_local! {
    static ARM: std::cell::Cell<(u8, u32)> = const { std::cell::Cell::new((0, 0)) };
}
pub fn arm(kind: u8, countdown: u32) {
    ARM.with(|a| a.set((kind, countdown)));
}
/// true if the armed panic has not fired (it is disarmed either way)
pub fn disarm() -> bool {
    ARM.with(|a| a.replace((0, 0)).0 != 0)
}
#[inline]
pub fn arm_hit(kind: u8) {
    let fire = ARM
        .try_with(|a| {
            let (k, c) = a.get();
            if k != kind {
                return false;
            }
            if c == 0 {
                a.set((0, 0));
                true
            } else {
                a.set((k, c - 1));
                false
            }
        })
        .unwrap_or(false);
    if fire {
        panic!("armed panic in a trait impl of the element type (kind {kind})");
    }
}

impl Clone for Tracked {
    fn clone(&self) -> Self {
        arm_hit(ARM_CLONE);
        table_check_live(self.id, "clone");
        if self.pad != pad_of(self.v) {
            TABLE.with(|t| t.borrow_mut().faults.push(format!("clone of id {}: the element's bytes were damaged", self.id)));
        }
        let tag = self.tag();
        Tracked {
            v: self.v,
            id: table_alloc(true, Some(tag)),
            #[cfg(not(feature = "small-elements"))]
            tag_: tag,
            pad: self.pad,
        }
    }
}

impl Drop for Tracked {
    fn drop(&mut self) {
        let id = self.id;
        let _ = TABLE.try_with(|t| {
            if let Ok(mut t) = t.try_borrow_mut() {
                match t.state.get(id as usize).copied() {
                    Some(1) => {
                        t.state[id as usize] = 2;
                        t.live -= 1;
                        t.dropped += 1;
                    }
                    other => t.faults.push(format!("double-drop: id {id} (state {other:?})")),
                }
            }
        });
    }
}

impl PartialEq for Tracked {
    fn eq(&self, o: &Self) -> bool {
        arm_hit(ARM_EQ);
        table_check_live(self.id, "eq");
        table_check_live(o.id, "eq");
        self.v == o.v
    }
}
impl Eq for Tracked {}
impl PartialOrd for Tracked {
    fn partial_cmp(&self, o: &Self) -> Option<std::cmp::Ordering> {
        Some(self.cmp(o))
    }
}
impl Ord for Tracked {
    fn cmp(&self, o: &Self) -> std::cmp::Ordering {
        arm_hit(ARM_CMP);
        table_check_live(self.id, "cmp");
        table_check_live(o.id, "cmp");
        self.v.cmp(&o.v)
    }
}
impl Hash for Tracked {
    fn hash<H: Hasher>(&self, h: &mut H) {
        arm_hit(ARM_HASH);
        self.v.hash(h)
    }
}
impl std::fmt::Debug for Tracked {
    fn fmt(&self, f: &mut std::fmt::Formatter<'_>) -> std::fmt::Result {
        write!(f, "{}", self.v)
    }
}

/// A value/tag pair copied out of a `Tracked` (does not touch the table); `id` is the element tag.
#[derive(Clone, Copy, Debug, PartialEq, Eq, Hash, PartialOrd, Ord)]
pub struct Item {
    pub v: u32,
    pub id: u32,
}
impl From<&Tracked> for Item {
    fn from(t: &Tracked) -> Self {
        Item { v: t.v, id: t.tag() }
    }
}

pub fn items_of<'a>(it: impl IntoIterator<Item = &'a Tracked>) -> Vec<Item> {
    it.into_iter().map(Item::from).collect()
}
pub fn vals(xs: &[Item]) -> Vec<u32> {
    xs.iter().map(|i| i.v).collect()
}

// ---------------------------------------------------------------------------------------------
// diffs as plain data + checked replica

#[derive(Clone, Debug, PartialEq, Eq, Hash)]
pub enum D {
    Append(Vec<Item>),
    Clear,
    PushFront(Item),
    PushBack(Item),
    PopFront,
    PopBack,
    Insert(usize, Item),
    Set(usize, Item),
    Remove(usize),
    Truncate(usize),
    Reset(Vec<Item>),
}

impl D {
    pub fn of(d: &VectorDiff<Tracked>) -> D {
        match d {
            VectorDiff::Append { values } => D::Append(items_of(values.iter())),
            VectorDiff::Clear => D::Clear,
            VectorDiff::PushFront { value } => D::PushFront(value.into()),
            VectorDiff::PushBack { value } => D::PushBack(value.into()),
            VectorDiff::PopFront => D::PopFront,
            VectorDiff::PopBack => D::PopBack,
            VectorDiff::Insert { index, value } => D::Insert(*index, value.into()),
            VectorDiff::Set { index, value } => D::Set(*index, value.into()),
            VectorDiff::Remove { index } => D::Remove(*index),
            VectorDiff::Truncate { length } => D::Truncate(*length),
            VectorDiff::Reset { values } => D::Reset(items_of(values.iter())),
        }
    }
    pub fn kind(&self) -> &'static str {
        match self {
            D::Append(_) => "Append",
            D::Clear => "Clear",
            D::PushFront(_) => "PushFront",
            D::PushBack(_) => "PushBack",
            D::PopFront => "PopFront",
            D::PopBack => "PopBack",
            D::Insert(..) => "Insert",
            D::Set(..) => "Set",
            D::Remove(_) => "Remove",
            D::Truncate(_) => "Truncate",
            D::Reset(_) => "Reset",
        }
    }
    /// value-level rendering (ids omitted) for replays and evidence
    pub fn show(&self) -> String {
        match self {
            D::Append(v) => format!("Append{:?}", vals(v)),
            D::Clear => "Clear".into(),
            D::PushFront(i) => format!("PushFront({})", i.v),
            D::PushBack(i) => format!("PushBack({})", i.v),
            D::PopFront => "PopFront".into(),
            D::PopBack => "PopBack".into(),
            D::Insert(x, i) => format!("Insert({x},{})", i.v),
            D::Set(x, i) => format!("Set({x},{})", i.v),
            D::Remove(x) => format!("Remove({x})"),
            D::Truncate(n) => format!("Truncate({n})"),
            D::Reset(v) => format!("Reset{:?}", vals(v)),
        }
    }
    /// value-only equality
    pub fn same_values(&self, o: &D) -> bool {
        self.show() == o.show()
    }
    /// Apply to a replica, refusing inapplicable diffs (pop on empty, insert > len, set/remove >= len,
    /// truncate > len).
    pub fn checked_apply(&self, r: &mut Vec<Item>) -> Result<(), String> {
        let len = r.len();
        match self {
            D::Append(v) => r.extend_from_slice(v),
            D::Clear => r.clear(),
            D::PushFront(i) => r.insert(0, *i),
            D::PushBack(i) => r.push(*i),
            D::PopFront => {
                if len == 0 {
                    return Err("PopFront on an empty replica".into());
                }
                r.remove(0);
            }
            D::PopBack => {
                if len == 0 {
                    return Err("PopBack on an empty replica".into());
                }
                r.pop();
            }
            D::Insert(x, i) => {
                if *x > len {
                    return Err(format!("Insert index {x} > len {len}"));
                }
                r.insert(*x, *i);
            }
            D::Set(x, i) => {
                if *x >= len {
                    return Err(format!("Set index {x} >= len {len}"));
                }
                r[*x] = *i;
            }
            D::Remove(x) => {
                if *x >= len {
                    return Err(format!("Remove index {x} >= len {len}"));
                }
                r.remove(*x);
            }
            // truncating to more than the current length is a harmless no-op for `VectorDiff::apply`
            // (C18), not an inapplicable diff
            D::Truncate(n) => r.truncate(*n),
            D::Reset(v) => {
                r.clear();
                r.extend_from_slice(v);
            }
        }
        Ok(())
    }
}

pub fn show_diffs(ds: &[D]) -> String {
    let v: Vec<String> = ds.iter().map(|d| d.show()).collect();
    format!("[{}]", v.join(", "))
}

// ---------------------------------------------------------------------------------------------
// evidence

/// Exact set of 64-bit history hashes, kept as a sorted, deduplicated vector (8 bytes per entry; the
/// exhaustive sets of the thorough tier insert hundreds of millions of hashes).
#[derive(Default, Clone)]
pub struct DistinctSet {
    v: Vec<u64>,
    clean: usize,
}

impl DistinctSet {
    pub fn insert(&mut self, h: u64) {
        self.v.push(h);
        if self.v.len() - self.clean > 4_000_000 && self.v.len() > 2 * self.clean {
            self.compact();
        }
    }
    pub fn compact(&mut self) {
        self.v.sort_unstable();
        self.v.dedup();
        self.clean = self.v.len();
    }
    pub fn extend(&mut self, mut o: DistinctSet) {
        if self.v.len() < o.v.len() {
            std::mem::swap(&mut self.v, &mut o.v);
        }
        self.v.append(&mut o.v);
        self.clean = 0;
        if self.v.len() > 8_000_000 {
            self.compact();
        }
    }
    /// number of distinct hashes (compacts if necessary)
    pub fn len(&self) -> usize {
        if self.clean == self.v.len() {
            self.v.len()
        } else {
            let mut c = self.clone();
            c.compact();
            c.v.len()
        }
    }
    pub fn is_empty(&self) -> bool {
        self.v.is_empty()
    }
}

#[derive(Default, Clone)]
pub struct Ev {
    pub evaluations: u64,
    pub distinct: DistinctSet,
    pub events: BTreeMap<String, u64>,
    pub samples: Vec<Value>,
    pub exhaustive_scopes: Vec<String>,
    pub known_hits: BTreeMap<String, u64>,
    pub foreign: u64,
    pub states: HashSet<u64>,
    pub extra: BTreeMap<String, Value>,
}

impl Ev {
    pub fn count(&mut self, k: &str) {
        *self.events.entry(k.to_string()).or_insert(0) += 1;
    }
    pub fn add(&mut self, k: &str, n: u64) {
        *self.events.entry(k.to_string()).or_insert(0) += n;
    }
    pub fn get(&self, k: &str) -> u64 {
        self.events.get(k).copied().unwrap_or(0)
    }
    pub fn nontrivial(&mut self, key: u64) {
        self.distinct.insert(key);
    }
    pub fn sample(&mut self, v: Value) {
        if self.samples.len() < 3 {
            self.samples.push(shorten(v));
        }
    }
    pub fn state(&mut self, h: u64) {
        if self.states.len() < 2_000_000 {
            self.states.insert(h);
        }
    }
    pub fn merge(&mut self, o: Ev) {
        self.evaluations += o.evaluations;
        self.distinct.extend(o.distinct);
        for (k, v) in o.events {
            *self.events.entry(k).or_insert(0) += v;
        }
        // at most two samples from each merged part, so that every part of a multi-part check shows up
        for s in o.samples.into_iter().take(2) {
            if self.samples.len() < 10 {
                self.samples.push(s);
            }
        }
        for s in o.exhaustive_scopes {
            if !self.exhaustive_scopes.contains(&s) {
                self.exhaustive_scopes.push(s);
            }
        }
        for (k, v) in o.known_hits {
            *self.known_hits.entry(k).or_insert(0) += v;
        }
        self.foreign += o.foreign;
        self.states.extend(o.states);
        for (k, v) in o.extra {
            self.extra.insert(k, v);
        }
    }
}

/// evidence files stay small: a sampled history is cut to its first 40 entries (marathons have 200,000), long
/// strings to 600 characters
pub fn shorten(v: Value) -> Value {
    match v {
        Value::Array(a) => {
            let n = a.len();
            let mut out: Vec<Value> = a.into_iter().take(40).map(shorten).collect();
            if n > 40 {
                out.push(Value::String(format!("... ({} more entries)", n - 40)));
            }
            Value::Array(out)
        }
        Value::Object(m) => Value::Object(m.into_iter().map(|(k, v)| (k, shorten(v))).collect()),
        Value::String(s) if s.len() > 600 => {
            let cut: String = s.chars().take(600).collect();
            Value::String(format!("{cut}... ({} characters)", s.len()))
        }
        other => other,
    }
}

pub fn hash_of<T: Hash>(t: &T) -> u64 {
    let mut h = std::collections::hash_map::DefaultHasher::new();
    t.hash(&mut h);
    h.finish()
}

// ---------------------------------------------------------------------------------------------
// violations

#[derive(Clone, Debug)]
pub struct Violation {
    pub property: String,
    /// how to regenerate the case: {"gen": "...", "case": n, ...}
    pub case: Value,
    /// literal history, human readable
    pub history: Vec<String>,
    pub what: String,
}

#[derive(Default)]
pub struct Outcome {
    pub ev: Ev,
    pub violations: Vec<Violation>,
    pub inconclusive: Vec<String>,
}

impl Outcome {
    pub fn merge(&mut self, o: Outcome) {
        self.ev.merge(o.ev);
        for v in o.violations {
            if self.violations.len() < 20 {
                self.violations.push(v);
            }
        }
        self.inconclusive.extend(o.inconclusive);
    }
}

// ---------------------------------------------------------------------------------------------
// known findings

#[derive(Default, Clone, Debug)]
pub struct Known {
    /// (property, sig) pairs enabled by `known:` lines
    pub enabled: BTreeSet<(String, String)>,
    pub text: BTreeMap<(String, String), String>,
}

impl Known {
    pub fn load(path: &str) -> Known {
        let mut k = Known::default();
        let Ok(s) = std::fs::read_to_string(path) else { return k };
        for line in s.lines() {
            let line = line.trim();
            let Some(rest) = line.strip_prefix("known:") else { continue };
            let mut prop = None;
            let mut sig = None;
            let mut words = vec![];
            for w in rest.split_whitespace() {
                if let Some(p) = w.strip_prefix("property=") {
                    prop = Some(p.to_string());
                } else if let Some(s) = w.strip_prefix("sig=") {
                    sig = Some(s.to_string());
                } else {
                    words.push(w);
                }
            }
            if let (Some(p), Some(s)) = (prop, sig) {
                k.text.insert((p.clone(), s.clone()), words.join(" "));
                k.enabled.insert((p, s));
            }
        }
        k
    }
    pub fn has(&self, prop: &str, sig: &str) -> bool {
        self.enabled.contains(&(prop.to_string(), sig.to_string()))
    }
}

// ---------------------------------------------------------------------------------------------
// parallel case runner

/// With the library's `tracing` feature on (harness feature `lib-features`): a subscriber that enables every level
/// and throws everything away after formatting it. Every second worker thread installs it, so that the arguments of
/// the library's tracing macros are evaluated and its spans entered there, while on the other threads the same call
/// sites are compiled in but disabled (a statement that only runs as a macro argument does not run there).
#[cfg(feature = "lib-features")]
pub mod trace_sink {
    use tracing::{span, Event, Metadata, Subscriber};
    pub struct Sink(pub std::sync::atomic::AtomicU64);
    impl Subscriber for Sink {
        fn enabled(&self, _: &Metadata<'_>) -> bool {
            true
        }
        // "sometimes": every call site asks the dispatcher of the thread it runs on, every time (with "always" the
        // interest would be cached process-wide and the threads without a subscriber would evaluate the macro
        // arguments as well)
        fn register_callsite(&self, _: &'static Metadata<'static>) -> tracing::subscriber::Interest {
            tracing::subscriber::Interest::sometimes()
        }
        fn new_span(&self, _: &span::Attributes<'_>) -> span::Id {
            span::Id::from_u64(1 + self.0.fetch_add(1, std::sync::atomic::Ordering::Relaxed))
        }
        fn record(&self, _: &span::Id, _: &span::Record<'_>) {}
        fn record_follows_from(&self, _: &span::Id, _: &span::Id) {}
        fn event(&self, ev: &Event<'_>) {
            struct V(u64);
            impl tracing::field::Visit for V {
                fn record_debug(&mut self, _: &tracing::field::Field, v: &dyn std::fmt::Debug) {
                    self.0 += format!("{v:?}").len() as u64;
                }
            }
            let mut v = V(0);
            ev.record(&mut v);
            self.0.fetch_add(v.0 & 1, std::sync::atomic::Ordering::Relaxed);
        }
        fn enter(&self, _: &span::Id) {}
        fn exit(&self, _: &span::Id) {}
    }
    pub fn install_on_this_thread() -> tracing::subscriber::DefaultGuard {
        tracing::subscriber::set_default(Sink(std::sync::atomic::AtomicU64::new(0)))
    }
}

/// Run `n` cases on `threads` worker threads; `f(case_index, &mut Outcome)`.
pub fn par_cases<F>(n: u64, threads: usize, stop_after_violations: usize, f: F) -> Outcome
where
    F: Fn(u64, &mut Outcome) + Sync,
{
    let next = AtomicU64::new(0);
    let stop = AtomicU64::new(0);
    let mut total = Outcome::default();
    let chunk = (n / (threads as u64 * 64)).clamp(1, 4096);
    std::thread::scope(|s| {
        let hs: Vec<_> = (0..threads.max(1))
            .map(|worker| {
                let (next, stop, f) = (&next, &stop, &f);
                s.spawn(move || {
                    #[cfg(feature = "lib-features")]
                    let _sink = (worker % 2 == 1).then(trace_sink::install_on_this_thread);
                    let _ = worker;
                    let mut out = Outcome::default();
                    loop {
                        let start = next.fetch_add(chunk, AO::Relaxed);
                        if start >= n || stop.load(AO::Relaxed) as usize >= stop_after_violations {
                            break;
                        }
                        let before = out.violations.len();
                        for i in start..(start + chunk).min(n) {
                            f(i, &mut out);
                        }
                        if out.violations.len() > before {
                            stop.fetch_add((out.violations.len() - before) as u64, AO::Relaxed);
                        }
                    }
                    out
                })
            })
            .collect();
        for h in hs {
            match h.join() {
                Ok(o) => total.merge(o),
                Err(_) => total.inconclusive.push("worker thread panicked outside catch_unwind".into()),
            }
        }
    });
    total
}

/// Silence the default panic message for panics we catch on purpose; remember the last message.
pub fn install_quiet_panic_hook() {
    std::panic::set_hook(Box::new(|info| {
        let msg = info.to_string();
        if msg.contains("panic in a destructor during cleanup") || msg.contains("cannot unwind") {
            // the process is about to abort (e.g. a second panic while the first one unwinds): leave a
            // diagnosis behind
            let (a, b) = (PREV_PANIC.with(|l| l.borrow().clone()), LAST_PANIC.with(|l| l.borrow().clone()));
            eprintln!("ABORTING-PANIC: {msg}\n  previous panic: {b}\n  the one before: {a}");
        }
        let prev = LAST_PANIC.with(|l| l.borrow().clone());
        PREV_PANIC.with(|l| *l.borrow_mut() = prev);
        LAST_PANIC.with(|l| *l.borrow_mut() = msg);
    }));
}
thread_local! {
    pub static LAST_PANIC: RefCell<String> = RefCell::new(String::new());
    pub static PREV_PANIC: RefCell<String> = RefCell::new(String::new());
}
pub fn last_panic() -> String {
    LAST_PANIC.with(|l| l.borrow().clone())
}

pub fn evidence_json(
    property: &str,
    tier: &str,
    seed: u64,
    level: &str,
    rule: &str,
    assumptions: &[&str],
    out: &Outcome,
    wall_s: f64,
) -> Value {
    let ev = &out.ev;
    let mut cov = serde_json::Map::new();
    cov.insert("evaluations".into(), json!(ev.evaluations));
    cov.insert("distinct_nontrivial".into(), json!(ev.distinct.len()));
    cov.insert("rule".into(), json!(rule));
    cov.insert("samples".into(), shorten(json!(ev.samples)));
    cov.insert("events".into(), json!(ev.events));
    if !ev.states.is_empty() {
        cov.insert("distinct_model_states".into(), json!(ev.states.len()));
    }
    if !ev.exhaustive_scopes.is_empty() {
        cov.insert("exhaustive_scope".into(), json!(ev.exhaustive_scopes));
        cov.insert("exhaustive_subspaces".into(), json!(true));
    }
    cov.insert("known_findings_hit".into(), json!(ev.known_hits));
    cov.insert("foreign_divergences".into(), json!(ev.foreign));
    for (k, v) in &ev.extra {
        cov.insert(k.clone(), v.clone());
    }
    json!({
        "property_id": property,
        "tier": tier,
        "seed": seed,
        "level": level,
        "coverage": Value::Object(cov),
        "assumptions": assumptions,
        "wall_s": wall_s,
        "violations": out.violations.len(),
        "inconclusive": out.inconclusive,
    })
}


// ---------------------------------------------------------------------------------------------
// A monitor that found a divergence says so at once (first few per process only): if the process dies
// afterwards (memory corrupted by the defect that was just observed), the driver still has the observation.
static NOTED: AtomicU64 = AtomicU64::new(0);
pub fn note_divergence(tags: &str, what: &str) {
    if NOTED.fetch_add(1, AO::Relaxed) < 12 {
        let w: String = what.chars().take(400).collect();
        eprintln!("DIVERGENCE tags={tags} {}", w.replace('\n', " "));
    }
}

// ---------------------------------------------------------------------------------------------
// Drop accounting across threads: every instance registers in a process-wide table.
pub mod counted {
    use std::collections::HashMap;
    use std::sync::atomic::{AtomicU64, Ordering};
    use std::sync::Mutex;
    static NEXT: AtomicU64 = AtomicU64::new(1);
    static LIVE: Mutex<Option<HashMap<u64, u64>>> = Mutex::new(None);
    static FAULTS: Mutex<Vec<String>> = Mutex::new(Vec::new());

    /// value with an instance id; construction, clone and drop are recorded per arena
    #[derive(Debug)]
    pub struct Counted {
        pub arena: u64,
        pub v: u64,
        id: u64,
    }
    fn reg(arena: u64) -> u64 {
        let id = NEXT.fetch_add(1, Ordering::SeqCst);
        LIVE.lock().unwrap().get_or_insert_with(HashMap::new).insert(id, arena);
        id
    }
    impl Counted {
        pub fn new(arena: u64, v: u64) -> Self {
            Counted { arena, v, id: reg(arena) }
        }
    }
    impl Clone for Counted {
        fn clone(&self) -> Self {
            if !LIVE.lock().unwrap().get_or_insert_with(HashMap::new).contains_key(&self.id) {
                FAULTS.lock().unwrap().push(format!("arena {}: clone of instance {} which was already dropped", self.arena, self.id));
            }
            Counted { arena: self.arena, v: self.v, id: reg(self.arena) }
        }
    }
    impl PartialEq for Counted {
        fn eq(&self, o: &Self) -> bool {
            self.v == o.v
        }
    }
    impl Drop for Counted {
        fn drop(&mut self) {
            if LIVE.lock().unwrap().get_or_insert_with(HashMap::new).remove(&self.id).is_none() {
                FAULTS.lock().unwrap().push(format!("arena {}: instance {} (value {}) dropped twice", self.arena, self.id, self.v));
            }
        }
    }
    pub fn new_arena() -> u64 {
        NEXT.fetch_add(1, Ordering::SeqCst)
    }
    /// (instances of the arena still alive, faults recorded for the arena)
    pub fn finish(arena: u64) -> (usize, Vec<String>) {
        let live = LIVE.lock().unwrap().get_or_insert_with(HashMap::new).values().filter(|a| **a == arena).count();
        let tag = format!("arena {arena}:");
        let mut f = FAULTS.lock().unwrap();
        let mine: Vec<String> = f.iter().filter(|x| x.starts_with(&tag)).cloned().collect();
        f.retain(|x| !x.starts_with(&tag));
        (live, mine)
    }
}
