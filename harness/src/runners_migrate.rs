//! Thread migration (no concurrency): every operation of a history is executed on one of three worker threads,
//! strictly one at a time - the objects (observable handles, subscribers, a write guard of the async-lock flavour,
//! a vector, its streams) are created on one thread, used on another and dropped on a third, the way a
//! work-stealing executor resumes a task on a different worker. Anything the library keys by the calling thread
//! (a `thread_local!`, a thread id, a per-thread pool) meets objects that came from elsewhere. Oracles: the
//! value / version / wake model of C01-C04 and C16, exact counts (C19), replica == contents at Pending and wake
//! implication for vector streams (C05 C06 C14), end of stream (C03 C08), and a process-wide drop table (C20).

use std::{
    pin::Pin,
    sync::{mpsc, Arc},
    task::{Context, Poll},
};

use eyeball::{AsyncLock, ObservableWriteGuard, SharedObservable, Subscriber, WeakObservable};
use eyeball_im::{ObservableVector, VectorDiff};
use eyeball_im_util::vector::VectorObserverExt;
use futures_core::Stream;
use serde_json::json;

use crate::{
    common::{counted::Counted, *},
    Params,
};

type Job = Box<dyn FnOnce() + Send>;

/// three long-lived worker threads per history; `on(k, f)` runs `f` on worker k and waits for it
struct Workers {
    tx: Vec<mpsc::Sender<Job>>,
    hs: Vec<std::thread::JoinHandle<()>>,
}
impl Workers {
    fn new(n: usize) -> Workers {
        let mut tx = vec![];
        let mut hs = vec![];
        for _ in 0..n {
            let (t, r) = mpsc::channel::<Job>();
            tx.push(t);
            hs.push(std::thread::spawn(move || {
                while let Ok(job) = r.recv() {
                    job();
                }
            }));
        }
        Workers { tx, hs }
    }
    fn on<R: Send + 'static>(&self, k: usize, f: impl FnOnce() -> R + Send + 'static) -> Result<R, String> {
        let (rt, rr) = mpsc::channel();
        self.tx[k % self.tx.len()]
            .send(Box::new(move || {
                let r = std::panic::catch_unwind(std::panic::AssertUnwindSafe(f));
                let _ = rt.send(r);
            }))
            .map_err(|_| "worker gone".to_string())?;
        match rr.recv() {
            Ok(Ok(r)) => Ok(r),
            Ok(Err(_)) => Err("a call panicked on a worker thread".into()),
            Err(_) => Err("worker gone".into()),
        }
    }
}
impl Drop for Workers {
    fn drop(&mut self) {
        self.tx.clear();
        for h in self.hs.drain(..) {
            let _ = h.join();
        }
    }
}

type Cx = (&'static str, String);

/// hash that depends on part of the value only is not needed here; values are plain u64
struct SubM<S> {
    s: S,
    observed: u64,
    pending: Option<Arc<FlagWaker>>,
    /// one waker for the whole life of this subscriber ("the same task"), or a fresh one per poll
    own: Option<(Arc<FlagWaker>, std::task::Waker)>,
}

macro_rules! obs_migrate {
    ($name:ident, $asyncfl:tt, $S:ty, $Sub:ty, $W:ty, $new:expr, $aw:ident) => {
        fn $name(rng: &mut Rng, log: &mut Vec<String>, ev: &mut Ev, w: &Workers) -> Result<(), Cx> {
            let fl = if $asyncfl { "async" } else { "sync" };
            let t0 = rng.below(3);
            let mut value = 1u64;
            let mut version = 1u64;
            let first: $S = w.on(t0, move || $new(1u64)).map_err(|e| ("C01", e))?;
            log.push(format!("[{fl}] thread {t0}: new(1)"));
            let mut owners: Vec<$S> = vec![first];
            let mut weaks: Vec<$W> = vec![];
            let mut subs: Vec<SubM<$Sub>> = vec![];
            let same_waker = rng.chance(1, 2);
            let n_ops = rng.range(6, 40);
            for step in 0..n_ops {
                let t = rng.below(3);
                let closed = owners.is_empty();
                match rng.below(14) {
                    0 | 1 if !closed => {
                        value += 1;
                        let v = value;
                        let h = owners.swap_remove(rng.below(owners.len()));
                        let (h, prev) = w.on(t, move || { let p = $aw!(h.set(v)); (h, p) }).map_err(|e| ("C01", e))?;
                        owners.push(h);
                        log.push(format!("thread {t}: set({v}) -> {prev}"));
                        if prev != v - 1 {
                            return Err(("C01|C04", format!("step {step}: set({v}) on thread {t} returned {prev}, the previous value is {}", v - 1)));
                        }
                        version += 1;
                    }
                    2 | 3 if !closed => {
                        // conditional setters with an equal and with a different value, on whatever thread
                        let equal = rng.chance(1, 2);
                        let by_hash = rng.chance(1, 2);
                        let v = if equal { value } else { value + 1 };
                        let h = owners.swap_remove(rng.below(owners.len()));
                        let (h, r) = w
                            .on(t, move || {
                                let r = if by_hash { $aw!(h.set_if_hash_not_eq(v)) } else { $aw!(h.set_if_not_eq(v)) };
                                (h, r)
                            })
                            .map_err(|e| ("C01", e))?;
                        owners.push(h);
                        log.push(format!("thread {t}: set_if_{}not_eq({v}) -> {r:?}", if by_hash { "hash_" } else { "" }));
                        let want = if equal { None } else { Some(value) };
                        if r != want {
                            return Err(("C01", format!("step {step}: set_if_{}not_eq({v}) on thread {t} returned {r:?}, expected {want:?} (stored value {value})", if by_hash { "hash_" } else { "" })));
                        }
                        if !equal {
                            value = v;
                            version += 1;
                        }
                    }
                    4 if !closed && owners.len() < 4 => {
                        let h = owners.swap_remove(rng.below(owners.len()));
                        let (h, c) = w.on(t, move || { let c = h.clone(); (h, c) }).map_err(|e| ("C03", e))?;
                        owners.push(h);
                        owners.push(c);
                        log.push(format!("thread {t}: clone"));
                    }
                    5 if !closed && weaks.len() < 3 => {
                        let h = owners.swap_remove(rng.below(owners.len()));
                        let (h, wk) = w.on(t, move || { let k = h.downgrade(); (h, k) }).map_err(|e| ("C03", e))?;
                        owners.push(h);
                        weaks.push(wk);
                        log.push(format!("thread {t}: downgrade"));
                    }
                    6 if !weaks.is_empty() => {
                        let wk = weaks.swap_remove(rng.below(weaks.len()));
                        let (wk, up) = w.on(t, move || { let u = wk.upgrade(); (wk, u) }).map_err(|e| ("C03", e))?;
                        weaks.push(wk);
                        log.push(format!("thread {t}: upgrade -> {}", up.is_some()));
                        if up.is_some() == closed {
                            return Err(("C03", format!("step {step}: upgrade on thread {t} returned {} although {} owner exists", if up.is_some() { "Some" } else { "None" }, if closed { "no" } else { "an" })));
                        }
                        if let Some(u) = up {
                            if owners.len() < 4 {
                                owners.push(u);
                            } else {
                                w.on(t, move || drop(u)).map_err(|e| ("C03", e))?;
                            }
                        }
                    }
                    7 if !owners.is_empty() => {
                        let h = owners.swap_remove(rng.below(owners.len()));
                        w.on(t, move || drop(h)).map_err(|e| ("C03", e))?;
                        log.push(format!("thread {t}: drop of a handle ({} left)", owners.len()));
                        if owners.is_empty() {
                            // the close: every pending subscriber is owed a wake
                            for (i, s) in subs.iter().enumerate() {
                                if let Some(p) = &s.pending {
                                    if !p.woken() {
                                        return Err(("C02", format!("step {step}: the last owner was dropped on thread {t}: subscriber {i} was Pending and its waker was not woken")));
                                    }
                                }
                            }
                        }
                    }
                    8 if !closed && subs.len() < 5 => {
                        let h = owners.swap_remove(rng.below(owners.len()));
                        let (h, s) = w.on(t, move || { let s = $aw!(h.subscribe()); (h, s) }).map_err(|e| ("C01", e))?;
                        owners.push(h);
                        subs.push(SubM { s, observed: version, pending: None, own: None });
                        log.push(format!("thread {t}: subscribe"));
                    }
                    9 | 10 | 11 if !subs.is_empty() => {
                        let i = rng.below(subs.len());
                        let mut sm = subs.swap_remove(i);
                        let (flag, waker) = if same_waker { sm.own.get_or_insert_with(flag_waker).clone() } else { flag_waker() };
                        let wakes_before = flag.wakes.load(std::sync::atomic::Ordering::SeqCst);
                        let (s, r) = w
                            .on(t, move || {
                                let mut s = sm.s;
                                let mut cx = Context::from_waker(&waker);
                                let r = Pin::new(&mut s).poll_next(&mut cx);
                                (s, r)
                            })
                            .map_err(|e| ("C01", e))?;
                        let expect = if closed {
                            Poll::Ready(None)
                        } else if sm.observed < version {
                            Poll::Ready(Some(value))
                        } else {
                            Poll::Pending
                        };
                        log.push(format!("thread {t}: poll subscriber -> {r:?}"));
                        if r != expect {
                            let tag = if closed { "C03" } else { "C01" };
                            return Err((tag, format!("step {step}: poll on thread {t} answered {r:?}, expected {expect:?} (observed {}, version {version}, closed {closed})", sm.observed)));
                        }
                        if r.is_ready() {
                            sm.observed = version;
                            sm.pending = None;
                        } else {
                            // (same-waker mode: judged by counts)
                            let _ = wakes_before;
                            sm.pending = Some(flag);
                        }
                        subs.push(SubM { s, observed: sm.observed, pending: sm.pending, own: sm.own });
                        ev.count("migrate_obs_polls");
                    }
                    12 if !subs.is_empty() => {
                        let i = rng.below(subs.len());
                        let sm = subs.swap_remove(i);
                        w.on(t, move || drop(sm.s)).map_err(|e| ("C19", e))?;
                        log.push(format!("thread {t}: drop of a subscriber"));
                    }
                    13 if !closed && $asyncfl => {
                        // async-lock flavour only (its guards are Send): a write guard taken on one thread, used and
                        // dropped on another
                        obs_migrate!(@guard $asyncfl, owners, w, t, rng, value, version, log, step);
                    }
                    _ => {}
                }
                // wake obligations after every step: a Pending subscriber must have been woken by any update since
                for (i, s) in subs.iter_mut().enumerate() {
                    if let Some(p) = &s.pending {
                        if s.observed < version && !same_waker && !p.woken() {
                            return Err(("C02|C04", format!("step {step}: subscriber {i} is Pending (observed {}), the version is {version}, and the waker of that poll was never woken", s.observed)));
                        }
                    }
                }
                // counts (C19) read on yet another thread
                if let Some(h) = owners.pop() {
                    let tc = rng.below(3);
                    let (h, got) = w.on(tc, move || { let g = (h.observable_count(), h.subscriber_count(), h.weak_count()); (h, g) }).map_err(|e| ("C19", e))?;
                    owners.push(h);
                    let want = (owners.len(), subs.len(), weaks.len());
                    if got != want {
                        return Err(("C19", format!("step {step}: (observable_count, subscriber_count, weak_count) read on thread {tc} = {got:?}, live = {want:?}")));
                    }
                }
            }
            // the end: everything is dropped on random threads; afterwards every subscriber has ended
            while let Some(h) = owners.pop() {
                let t = rng.below(3);
                w.on(t, move || drop(h)).map_err(|e| ("C03", e))?;
            }
            for (i, sm) in subs.drain(..).enumerate() {
                let t = rng.below(3);
                let r = w
                    .on(t, move || {
                        let mut s = sm.s;
                        let (_f, wk) = flag_waker();
                        let mut cx = Context::from_waker(&wk);
                        let mut last = Pin::new(&mut s).poll_next(&mut cx);
                        if matches!(last, Poll::Ready(Some(_))) {
                            last = Pin::new(&mut s).poll_next(&mut cx);
                        }
                        last
                    })
                    .map_err(|e| ("C03", e))?;
                if r != Poll::Ready(None) {
                    return Err(("C03", format!("at the end: every owner is gone but subscriber {i}, polled on thread {t}, answers {r:?}")));
                }
            }
            for wk in weaks.drain(..) {
                let t = rng.below(3);
                let up = w.on(t, move || wk.upgrade().is_some()).map_err(|e| ("C03", e))?;
                if up {
                    return Err(("C03", "at the end: a weak reference upgrades although every owner is gone".into()));
                }
            }
            Ok(())
        }
    };
    (@guard true, $owners:ident, $w:ident, $t:ident, $rng:ident, $value:ident, $version:ident, $log:ident, $step:ident) => {{
        let h = $owners.swap_remove($rng.below($owners.len()));
        let t2 = ($t + 1 + $rng.below(2)) % 3;
        $value += 1;
        let v = $value;
        // take the guard on thread t, set through it; move the guard to thread t2 and drop it there
        let h = Arc::new(h);
        let h2 = h.clone();
        let guard = $w
            .on($t, move || {
                // the guard borrows the handle: keep the handle alive behind an Arc and extend the borrow for the
                // time the guard lives (it is dropped before the Arc is)
                let hr: &'static SharedObservable<u64, AsyncLock> = unsafe { &*(Arc::as_ptr(&h2)) };
                let mut g = block_on(hr.write()).expect("write() did not complete although no guard is held");
                let prev = ObservableWriteGuard::set(&mut g, v);
                (g, prev, h2)
            })
            .map_err(|e| ("C04", e))?;
        let (g, prev, h2) = guard;
        if prev != v - 1 {
            return Err(("C01|C04", format!("step {}: guard.set({v}) returned {prev}", $step)));
        }
        $w.on(t2, move || {
            drop(g);
            drop(h2);
        })
        .map_err(|e| ("C04", e))?;
        $log.push(format!("thread {}: write guard taken, set({v}); thread {t2}: guard dropped", $t));
        $version += 1;
        match Arc::try_unwrap(h) {
            Ok(h) => $owners.push(h),
            Err(_) => return Err(("C04", "harness: handle still shared".into())),
        }
    }};
    (@guard false, $($x:tt)*) => {{}};
}

macro_rules! now {
    ($e:expr) => {
        $e
    };
}
macro_rules! awaited {
    ($e:expr) => {
        block_on($e).expect("a future of the async-lock flavour did not complete although no guard is held")
    };
}

obs_migrate!(obs_migrate_sync, false, SharedObservable<u64>, Subscriber<u64>, WeakObservable<u64>, SharedObservable::new, now);
obs_migrate!(
    obs_migrate_async,
    true,
    SharedObservable<u64, AsyncLock>,
    Subscriber<u64, AsyncLock>,
    WeakObservable<u64, AsyncLock>,
    SharedObservable::new_async,
    awaited
);

// ---------------------------------------------------------------------------------------------
// vectors: the vector lives on one thread at a time, its streams are created, polled and dropped on others

type DynS = Pin<Box<dyn Stream<Item = Vec<VectorDiff<Counted>>> + Send>>;

struct StreamM {
    s: DynS,
    replica: Vec<u64>,
    pending: Option<Arc<FlagWaker>>,
    /// wake count of that waker at the Pending poll (same-waker mode judges by counts)
    pending_at: u64,
    own: (Arc<FlagWaker>, std::task::Waker),
    /// 0 plain, 1 batched, 2 filter(even) on the plain stream
    kind: usize,
    ended: bool,
}

fn apply(r: &mut Vec<u64>, d: &VectorDiff<Counted>) -> Result<(), String> {
    let len = r.len();
    match d {
        VectorDiff::Append { values } => r.extend(values.iter().map(|c| c.v)),
        VectorDiff::Clear => r.clear(),
        VectorDiff::PushFront { value } => r.insert(0, value.v),
        VectorDiff::PushBack { value } => r.push(value.v),
        VectorDiff::PopFront if len > 0 => {
            r.remove(0);
        }
        VectorDiff::PopBack if len > 0 => {
            r.pop();
        }
        VectorDiff::Insert { index, value } if *index <= len => r.insert(*index, value.v),
        VectorDiff::Set { index, value } if *index < len => r[*index] = value.v,
        VectorDiff::Remove { index } if *index < len => {
            r.remove(*index);
        }
        VectorDiff::Truncate { length } => r.truncate(*length),
        VectorDiff::Reset { values } => *r = values.iter().map(|c| c.v).collect(),
        other => return Err(format!("inapplicable diff {other:?} for a replica of {len} items")),
    }
    Ok(())
}

fn vec_migrate(rng: &mut Rng, log: &mut Vec<String>, ev: &mut Ev, w: &Workers, arena: u64) -> Result<(), Cx> {
    let cap = *rng.pick(&[2usize, 8, 32]);
    let t0 = rng.below(3);
    let mut ob: Option<ObservableVector<Counted>> = Some(
        w.on(t0, move || {
            let mut v = ObservableVector::with_capacity(cap);
            for x in 0..3u64 {
                v.push_back(Counted::new(arena, x));
            }
            v
        })
        .map_err(|e| ("C05", e))?,
    );
    log.push(format!("thread {t0}: with_capacity({cap}), 3 items"));
    let mut contents: Vec<u64> = vec![0, 1, 2];
    let mut streams: Vec<StreamM> = vec![];
    let same_waker = rng.chance(1, 2);
    let mut ctr = 10u64;
    let n_ops = rng.range(6, 40);
    for step in 0..n_ops {
        let t = rng.below(3);
        match rng.below(10) {
            0..=3 if ob.is_some() => {
                ctr += 1;
                let x = ctr;
                let which = rng.below(5);
                let len = contents.len();
                let at = if len > 0 { rng.below(len) } else { 0 };
                let mut v = ob.take().unwrap();
                v = w
                    .on(t, move || {
                        match which {
                            0 => v.push_back(Counted::new(arena, x)),
                            1 => v.push_front(Counted::new(arena, x)),
                            2 => drop(v.pop_front()),
                            3 if len > 0 => drop(v.set(at, Counted::new(arena, x))),
                            _ => drop(v.pop_back()),
                        }
                        v
                    })
                    .map_err(|e| ("C05", e))?;
                match which {
                    0 => contents.push(x),
                    1 => contents.insert(0, x),
                    2 => {
                        if len > 0 {
                            contents.remove(0);
                        }
                    }
                    3 if len > 0 => contents[at] = x,
                    _ => {
                        contents.pop();
                    }
                }
                let now: Vec<u64> = v.iter().map(|c| c.v).collect();
                ob = Some(v);
                log.push(format!("thread {t}: vector -> {now:?}"));
                if now != contents {
                    return Err(("C17", format!("step {step}: contents {now:?}, a plain vector holds {contents:?}")));
                }
            }
            4 if ob.is_some() && streams.len() < 4 => {
                let kind = rng.below(3);
                let v = ob.take().unwrap();
                let (v, s, vals): (_, DynS, Vec<u64>) = w
                    .on(t, move || {
                        struct One<S>(S);
                        impl<S: Stream<Item = VectorDiff<Counted>> + Unpin> Stream for One<S> {
                            type Item = Vec<VectorDiff<Counted>>;
                            fn poll_next(mut self: Pin<&mut Self>, cx: &mut Context<'_>) -> Poll<Option<Self::Item>> {
                                Pin::new(&mut self.0).poll_next(cx).map(|o| o.map(|d| vec![d]))
                            }
                        }
                        let sub = v.subscribe();
                        match kind {
                            0 => {
                                let (vals, s) = sub.into_values_and_stream();
                                let vals = vals.iter().map(|c| c.v).collect();
                                (v, Box::pin(One(s)) as DynS, vals)
                            }
                            1 => {
                                let (vals, s) = sub.into_values_and_batched_stream();
                                let vals = vals.iter().map(|c| c.v).collect();
                                (v, Box::pin(s) as DynS, vals)
                            }
                            _ => {
                                let (vals, s) = sub.filter(|c: &Counted| c.v % 2 == 0);
                                let vals = vals.iter().map(|c| c.v).collect();
                                (v, Box::pin(One(s)) as DynS, vals)
                            }
                        }
                    })
                    .map_err(|e| ("C05", e))?;
                ob = Some(v);
                streams.push(StreamM { s, replica: vals, pending: None, pending_at: 0, own: flag_waker(), kind, ended: false });
                log.push(format!("thread {t}: subscribe ({})", ["plain stream", "batched stream", "filter(even)"][kind]));
            }
            5..=7 if !streams.is_empty() => {
                let i = rng.below(streams.len());
                let mut sm = streams.swap_remove(i);
                if sm.ended {
                    streams.push(sm);
                    continue;
                }
                let alive = ob.is_some();
                let (flag, waker) = if same_waker { sm.own.clone() } else { flag_waker() };
                let wakes_before = flag.wakes.load(std::sync::atomic::Ordering::SeqCst);
                let pend_at = sm.pending.as_ref().map(|p| p.wakes.load(std::sync::atomic::Ordering::SeqCst));
                let _ = pend_at;
                let max = rng.range(1, 50);
                let (s, items) = w
                    .on(t, move || {
                        let mut s = sm.s;
                        let mut items: Vec<Poll<Option<Vec<VectorDiff<Counted>>>>> = vec![];
                        for _ in 0..max {
                            let mut cx = Context::from_waker(&waker);
                            let r = s.as_mut().poll_next(&mut cx);
                            let stop = !matches!(r, Poll::Ready(Some(_)));
                            items.push(r);
                            if stop {
                                break;
                            }
                        }
                        (s, items)
                    })
                    .map_err(|e| ("C05|C14", e))?;
                sm.s = s;
                let mut quiescent = false;
                for (k, r) in items.into_iter().enumerate() {
                    if k == 0 && r.is_ready() {
                        if let Some(p) = &sm.pending {
                            let woken = if same_waker { p.wakes.load(std::sync::atomic::Ordering::SeqCst) > sm_pending_at(&sm, wakes_before) } else { p.woken() };
                            if !woken {
                                return Err(("C14", format!("step {step}: a {} polled on thread {t} is ready again although the waker of its last Pending poll was never woken", ["plain stream", "batched stream", "filter(even)"][sm.kind])));
                            }
                        }
                    }
                    match r {
                        Poll::Ready(Some(ds)) => {
                            sm.pending = None;
                            for d in &ds {
                                apply(&mut sm.replica, d).map_err(|e| ("C05|C06", format!("step {step}: {e}")))?;
                            }
                        }
                        Poll::Ready(None) => {
                            sm.ended = true;
                            sm.pending = None;
                            if alive {
                                return Err(("C08", format!("step {step}: a stream ended on thread {t} although the vector is alive")));
                            }
                            quiescent = true;
                        }
                        Poll::Pending => {
                            sm.pending = Some(flag.clone());
                            sm.pending_at = flag.wakes.load(std::sync::atomic::Ordering::SeqCst);
                            quiescent = true;
                        }
                    }
                }
                if quiescent {
                    let want: Vec<u64> = if sm.kind == 2 { contents.iter().copied().filter(|x| x % 2 == 0).collect() } else { contents.clone() };
                    if sm.replica != want {
                        return Err((
                            if sm.ended { "C08" } else { "C05|C06" },
                            format!("step {step}: a {} polled on thread {t} is {} with replica {:?}, expected {want:?}", ["plain stream", "batched stream", "filter(even)"][sm.kind], if sm.ended { "at its end" } else { "Pending" }, sm.replica),
                        ));
                    }
                    if !alive && !sm.ended {
                        return Err(("C08", format!("step {step}: a stream polled on thread {t} is Pending although the vector was dropped")));
                    }
                    ev.count("migrate_vec_quiescent_checks");
                }
                streams.push(sm);
            }
            8 if !streams.is_empty() => {
                let i = rng.below(streams.len());
                let sm = streams.swap_remove(i);
                w.on(t, move || drop(sm.s)).map_err(|e| ("C20", e))?;
                log.push(format!("thread {t}: drop of a stream"));
            }
            9 if ob.is_some() && rng.chance(1, 4) => {
                let v = ob.take().unwrap();
                w.on(t, move || drop(v)).map_err(|e| ("C20", e))?;
                log.push(format!("thread {t}: drop of the vector"));
                for sm in streams.iter() {
                    if let Some(p) = &sm.pending {
                        if !same_waker && !p.woken() {
                            return Err(("C08|C14", format!("step {step}: the vector was dropped on thread {t}: a Pending stream was not woken")));
                        }
                    }
                }
            }
            _ => {}
        }
    }
    if let Some(v) = ob.take() {
        let t = rng.below(3);
        w.on(t, move || drop(v)).map_err(|e| ("C20", e))?;
    }
    for sm in streams.drain(..) {
        let t = rng.below(3);
        w.on(t, move || drop(sm.s)).map_err(|e| ("C20", e))?;
    }
    Ok(())
}

fn sm_pending_at(sm: &StreamM, _wakes_before: u64) -> u64 {
    sm.pending_at
}

pub fn run_migrate(p: &Params, prop: &'static str) -> Outcome {
    let seed = p.seed;
    let gen = "thread-migration";
    let mut p2 = p.clone();
    // every case owns three worker threads
    p2.threads = (p.threads / 3).max(1);
    p2.cases(gen, p.n(3_000, 60_000), move |i, out| {
        let mut rng = Rng::new(mix(seed, mix(hash_of(&gen), i)));
        let case = json!({"gen": gen, "case": i, "seed": seed});
        let mut log: Vec<String> = vec![];
        out.ev.evaluations += 1;
        let mut ev = Ev::default();
        let arena = counted::new_arena();
        let family = rng.below(3);
        let r = {
            let w = Workers::new(3);
            match family {
                0 => obs_migrate_sync(&mut rng, &mut log, &mut ev, &w),
                1 => obs_migrate_async(&mut rng, &mut log, &mut ev, &w),
                _ => vec_migrate(&mut rng, &mut log, &mut ev, &w, arena),
            }
        };
        out.ev.merge(ev);
        let (live, faults) = counted::finish(arena);
        let r = match r {
            Ok(()) if !faults.is_empty() => Err(("C20", format!("{} ({} fault(s))", faults[0], faults.len()))),
            Ok(()) if live != 0 => Err(("C20", format!("{live} value(s) still alive after every object was dropped (created on one thread, dropped on another)"))),
            other => other,
        };
        match r {
            Ok(()) => {
                out.ev.count(["migrate_histories_observable_sync", "migrate_histories_observable_async", "migrate_histories_vector"][family]);
                out.ev.nontrivial(hash_of(&(i, seed, family)));
            }
            Err((tags, what)) => {
                // a fault of the async-lock flavour is C16's as well
                let tags: &'static str = if family == 1 && !tags.contains("C16") { Box::leak(format!("{tags}|C16").into_boxed_str()) } else { tags };
                if tags.split('|').any(|t| t == prop) {
                    note_divergence(tags, &what);
                    out.violations.push(Violation { property: prop.into(), case, history: log, what });
                } else {
                    out.ev.foreign += 1;
                    out.ev.count(&format!("foreign_divergence_{tags}"));
                }
            }
        }
    })
}
