//! C18: VectorDiff::map commutes with apply (exhaustive small scope, executed).

use std::panic::{catch_unwind, AssertUnwindSafe};

use eyeball_im::VectorDiff;
use imbl::Vector;
use serde_json::json;

use crate::{common::*, Params};

fn all_diffs(len: usize, payloads: &[Vec<u32>], val: u32) -> Vec<VectorDiff<u32>> {
    let mut v = vec![VectorDiff::Clear, VectorDiff::PopFront, VectorDiff::PopBack];
    for p in payloads {
        v.push(VectorDiff::Append { values: p.iter().copied().collect() });
        v.push(VectorDiff::Reset { values: p.iter().copied().collect() });
    }
    v.push(VectorDiff::PushFront { value: val });
    v.push(VectorDiff::PushBack { value: val });
    // all indices / lengths up to one beyond the end, and the edges of usize and isize
    for i in (0..=len + 1).chain([usize::MAX, usize::MAX - 1, usize::MAX / 2, usize::MAX / 2 + 1]) {
        v.push(VectorDiff::Insert { index: i, value: val });
        v.push(VectorDiff::Set { index: i, value: val });
        v.push(VectorDiff::Remove { index: i });
        v.push(VectorDiff::Truncate { length: i });
    }
    v
}

fn model_apply(d: &VectorDiff<u32>, m: &mut Vec<u32>) -> bool {
    // returns false if apply is documented to panic
    let len = m.len();
    match d {
        VectorDiff::Append { values } => m.extend(values.iter().copied()),
        VectorDiff::Clear => m.clear(),
        VectorDiff::PushFront { value } => m.insert(0, *value),
        VectorDiff::PushBack { value } => m.push(*value),
        VectorDiff::PopFront => {
            if len > 0 {
                m.remove(0);
            }
        }
        VectorDiff::PopBack => {
            m.pop();
        }
        VectorDiff::Insert { index, value } => {
            if *index > len {
                return false;
            }
            m.insert(*index, *value);
        }
        VectorDiff::Set { index, value } => {
            if *index >= len {
                return false;
            }
            m[*index] = *value;
        }
        VectorDiff::Remove { index } => {
            if *index >= len {
                return false;
            }
            m.remove(*index);
        }
        VectorDiff::Truncate { length } => {
            if *length < len {
                m.truncate(*length);
            }
        }
        VectorDiff::Reset { values } => *m = values.iter().copied().collect(),
    }
    true
}

fn show(d: &VectorDiff<u32>) -> String {
    format!("{d:?}")
}

/// A vector with the given contents whose internal structure (leaves, offsets) comes from a history: built
/// in one go, carved out of a larger vector at the back, the front or the middle, or grown from both ends.
fn shaped(rng: &mut Rng, items: &[u32]) -> Vector<u32> {
    let n = items.len();
    let pad = |rng: &mut Rng| -> Vec<u32> { (0..rng.range(1, 200)).map(|i| 1000 + i as u32).collect() };
    let v: Vector<u32> = match rng.below(6) {
        0 => items.iter().copied().collect(),
        1 => {
            let front = pad(rng);
            let big: Vector<u32> = front.iter().chain(items).copied().collect();
            big.skip(front.len())
        }
        2 => {
            let big: Vector<u32> = items.iter().copied().chain(pad(rng)).collect();
            big.take(n)
        }
        3 => {
            let front = pad(rng);
            let mut big: Vector<u32> = front.iter().chain(items).copied().chain(pad(rng)).collect();
            let mut mid = big.split_off(front.len());
            mid.truncate(n);
            mid
        }
        4 => {
            let mut w = Vector::new();
            let cut = rng.below(n + 1);
            for x in items[..cut].iter().rev() {
                w.push_front(*x);
            }
            for x in &items[cut..] {
                w.push_back(*x);
            }
            w
        }
        _ => {
            let front = pad(rng);
            let mut big: Vector<u32> = front.iter().chain(items).copied().collect();
            for _ in 0..front.len() {
                big.pop_front();
            }
            big
        }
    };
    assert!(v.iter().copied().eq(items.iter().copied()), "harness: shaped vector differs from its contents");
    v
}

fn check_one(v: &[u32], d: &VectorDiff<u32>, out: &mut Outcome, case: &serde_json::Value) {
    let vec0: Vector<u32> = v.iter().copied().collect();
    check_one_on(v, vec0, d, out, case)
}

fn check_one_on(v: &[u32], vec0: Vector<u32>, d: &VectorDiff<u32>, out: &mut Outcome, case: &serde_json::Value) {
    out.ev.evaluations += 1;
    let fail = |out: &mut Outcome, what: String| {
        out.violations.push(Violation {
            property: "C18".into(),
            case: case.clone(),
            history: vec![format!("vector {v:?}"), format!("diff {}", show(d))],
            what,
        });
    };
    let mut m = v.to_vec();
    let ok = model_apply(d, &mut m);
    // apply: panics exactly when documented, otherwise performs the documented change
    let applied = {
        let d2 = d.clone();
        let mut w = vec0.clone();
        catch_unwind(AssertUnwindSafe(move || {
            d2.apply(&mut w);
            w
        }))
    };
    out.ev.count(match d {
        VectorDiff::Append { .. } => "Append",
        VectorDiff::Clear => "Clear",
        VectorDiff::PushFront { .. } => "PushFront",
        VectorDiff::PushBack { .. } => "PushBack",
        VectorDiff::PopFront => "PopFront",
        VectorDiff::PopBack => "PopBack",
        VectorDiff::Insert { .. } => "Insert",
        VectorDiff::Set { .. } => "Set",
        VectorDiff::Remove { .. } => "Remove",
        VectorDiff::Truncate { .. } => "Truncate",
        VectorDiff::Reset { .. } => "Reset",
    });
    match (&applied, ok) {
        (Err(_), false) => {
            out.ev.count("documented_panics_observed");
            out.ev.nontrivial(hash_of(&(v, show(d))));
            return;
        }
        (Err(_), true) => return fail(out, format!("apply panicked although the diff is applicable: {}", last_panic())),
        (Ok(w), false) => {
            return fail(out, format!("apply did not panic on an out-of-range index; result {:?}", w.iter().collect::<Vec<_>>()))
        }
        (Ok(w), true) => {
            let got: Vec<u32> = w.iter().copied().collect();
            if got != m {
                return fail(out, format!("apply gave {got:?}, the documented change gives {m:?}"));
            }
        }
    }
    if m != v {
        out.ev.nontrivial(hash_of(&(v, show(d))));
    }
    // identity
    if d.clone().map(|x| x) != *d {
        return fail(out, "mapping with the identity changed the diff".into());
    }
    // commutation for three more mappings
    macro_rules! commute {
        ($name:expr, $f:expr, $U:ty) => {{
            let f = $f;
            let mapped_vec: Vector<$U> = v.iter().copied().map(&f).collect();
            let mapped_diff: VectorDiff<$U> = match catch_unwind(AssertUnwindSafe(|| d.clone().map(&f))) {
                Ok(x) => x,
                Err(_) => return fail(out, format!("mapping {}: VectorDiff::map itself panicked: {}", $name, last_panic())),
            };
            let lhs = catch_unwind(AssertUnwindSafe(move || {
                let mut w = mapped_vec;
                mapped_diff.apply(&mut w);
                w
            }));
            let rhs: Vector<$U> = m.iter().copied().map(&f).collect();
            match lhs {
                Ok(l) if l == rhs => {}
                Ok(l) => {
                    return fail(
                        out,
                        format!("mapping {}: map(d).apply(map(v)) = {:?} but map(d.apply(v)) = {:?}", $name, l.iter().collect::<Vec<_>>(), rhs.iter().collect::<Vec<_>>()),
                    )
                }
                Err(_) => return fail(out, format!("mapping {}: applying the mapped diff panicked: {}", $name, last_panic())),
            }
        }};
    }
    commute!("2v+1", |x: u32| 2 * x + 1, u32);
    commute!("v%2", |x: u32| x % 2, u32);
    commute!("to_string", |x: u32| format!("s{x}"), String);
    // element types of other sizes: zero-sized, one byte, 72 bytes, 4800 bytes (the last only for short vectors)
    commute!("unit", |_x: u32| (), ());
    commute!("low byte", |x: u32| x as u8, u8);
    commute!("72 bytes", |x: u32| [x as u64; 9], [u64; 9]);
    if v.len() <= 24 {
        commute!("4800 bytes", |x: u32| [x as u64 + 1; 600], [u64; 600]);
        out.ev.count("commutations_checked_with_4800_byte_elements");
    }
    out.ev.count("commutations_checked");
}

pub fn run_c18(p: &Params) -> Outcome {
    let maxlen = if p.thorough { 6 } else { 4 };
    let payloads: Vec<Vec<u32>> = vec![vec![], vec![90], vec![91, 92], vec![93, 94, 95]];
    let gen_name = "c18-exh";
    let mut out = p.cases(gen_name, (maxlen + 1) as u64, |len, out| {
        let len = len as usize;
        // vectors of distinct values, plus one with duplicates
        let vs: Vec<Vec<u32>> = vec![(0..len as u32).map(|i| 10 + i).collect(), (0..len as u32).map(|i| i % 2).collect()];
        for v in vs {
            for d in all_diffs(len, &payloads, 77) {
                let case = json!({"gen": gen_name, "case": len});
                check_one(&v, &d, out, &case);
                if out.ev.samples.len() < 3 && matches!(d, VectorDiff::Insert { .. }) {
                    out.ev.sample(json!({"vector": v, "diff": show(&d)}));
                }
            }
        }
    });
    out.ev.exhaustive_scopes.push(format!(
        "{gen_name}: vectors of length 0..{maxlen} (distinct values, and values with duplicates) x all eleven diff kinds x all indices/lengths 0..len+1 x payload sizes 0..3 x mappings {{identity, 2v+1, v%2, u32->String}}"
    ));
    let seed = p.seed;
    let gen2 = "c18-rand";
    out.merge(p.cases(gen2, p.n(20_000, 1_000_000), |i, out| {
        let mut rng = Rng::new(mix(seed, mix(hash_of(&gen2), i)));
        let len = rng.below(200);
        let v: Vec<u32> = (0..len).map(|_| rng.below(50) as u32).collect();
        let val = rng.below(50) as u32;
        let idx = if rng.chance(1, 6) { len + rng.below(3) } else { rng.below(len + 1) };
        let payload: Vec<u32> = (0..rng.below(70)).map(|_| rng.below(50) as u32).collect();
        let d = match rng.below(11) {
            0 => VectorDiff::Append { values: payload.into_iter().collect() },
            1 => VectorDiff::Clear,
            2 => VectorDiff::PushFront { value: val },
            3 => VectorDiff::PushBack { value: val },
            4 => VectorDiff::PopFront,
            5 => VectorDiff::PopBack,
            6 => VectorDiff::Insert { index: idx, value: val },
            7 => VectorDiff::Set { index: idx, value: val },
            8 => VectorDiff::Remove { index: idx },
            9 => VectorDiff::Truncate { length: idx },
            _ => VectorDiff::Reset { values: payload.into_iter().collect() },
        };
        let case = json!({"gen": gen2, "case": i, "seed": seed});
        check_one(&v, &d, out, &case);
    }));
    // vectors and payloads whose internal structure comes from a history (several leaves although short,
    // shifted front, carved out of larger vectors)
    let gen3 = "c18-rand-shaped";
    out.merge(p.cases(gen3, p.n(20_000, 1_000_000), |i, out| {
        let mut rng = Rng::new(mix(seed, mix(hash_of(&gen3), i)));
        let len = if rng.chance(1, 2) { rng.below(12) } else { rng.below(200) };
        let v: Vec<u32> = (0..len).map(|_| rng.below(50) as u32).collect();
        let val = rng.below(50) as u32;
        let idx = if rng.chance(1, 6) { len + rng.below(3) } else { rng.below(len + 1) };
        let plen = if rng.chance(1, 2) { rng.below(10) } else { rng.below(150) };
        let payload: Vec<u32> = (0..plen).map(|_| rng.below(50) as u32).collect();
        let vec0 = shaped(&mut rng, &v);
        // now and then the payload is the target's own clone (same allocation), as in `ob.append((*ob).clone())`
        let alias = rng.chance(1, 5);
        let d = match rng.below(14) {
            0..=3 if alias => VectorDiff::Append { values: vec0.clone() },
            13 if alias => VectorDiff::Reset { values: vec0.clone() },
            0..=3 => VectorDiff::Append { values: shaped(&mut rng, &payload) },
            4 => VectorDiff::Clear,
            5 => VectorDiff::PushFront { value: val },
            6 => VectorDiff::PushBack { value: val },
            7 => VectorDiff::PopFront,
            8 => VectorDiff::PopBack,
            9 => VectorDiff::Insert { index: idx, value: val },
            10 => VectorDiff::Set { index: idx, value: val },
            11 => VectorDiff::Remove { index: idx },
            12 => VectorDiff::Truncate { length: idx },
            _ => VectorDiff::Reset { values: shaped(&mut rng, &payload) },
        };
        let case = json!({"gen": gen3, "case": i, "seed": seed});
        check_one_on(&v, vec0, &d, out, &case);
    }));
    // scale: targets and payloads of thousands to tens of thousands of values (imbl's tree gets a third level above
    // 4096 items, a fourth above 262144 is out of reach here), around the powers of 64 and of 2
    let gen4 = "c18-rand-giant";
    if !p.san() {
        out.merge(p.cases(gen4, p.n(60, 1_500), |i, out| {
            let mut rng = Rng::new(mix(seed, mix(hash_of(&gen4), i)));
            let sizes = [1023usize, 1024, 1025, 4095, 4096, 4097, 8192, 16320, 16383, 16384, 16385, 20_000, 32_768, 40_000, 65_536, 70_000];
            let len = if rng.chance(1, 2) { *rng.pick(&sizes) } else { rng.below(3000) };
            let plen = if rng.chance(2, 3) { *rng.pick(&sizes) } else { rng.below(3000) };
            let v: Vec<u32> = (0..len as u32).map(|x| x % 50).collect();
            let payload: Vec<u32> = (0..plen as u32).map(|x| (x * 7) % 50).collect();
            let val = rng.below(50) as u32;
            let idx = if rng.chance(1, 6) { len + rng.below(3) } else { rng.below(len + 1) };
            let d = match rng.below(8) {
                0..=2 => VectorDiff::Append { values: payload.iter().copied().collect() },
                3 | 4 => VectorDiff::Reset { values: payload.iter().copied().collect() },
                5 => VectorDiff::Insert { index: idx, value: val },
                6 => VectorDiff::Remove { index: idx },
                _ => VectorDiff::Truncate { length: idx },
            };
            let case = json!({"gen": gen4, "case": i, "seed": seed});
            check_one(&v, &d, out, &case);
            out.ev.count("cases_with_thousands_of_values");
        }));
    }
    out
}

// ---------------------------------------------------------------------------------------------
// C20: the instrumented element type rides along in every engine; this runner executes bulk
// histories of all three engines and reports the accounting faults (double drop, use after drop,
// leak). The memory-level verdict comes from the same workload under Miri and ASan/LSan (driver).

use crate::{
    engine_adp::{AdpHistory, Stage},
    engine_obs::{AsyncFl, ObsHistory, SyncFl},
    engine_vec::{gen_vec_history, judge_vec, GenCfg, HOp, VecHistory},
    runners_adp::{gen_adp_history, gen_stage, judge_adp, AGen, ALL_PKS},
    runners_obs::gen_obs_history,
    vops::{TxEnd, VOp},
};

pub fn run_c20(p: &Params) -> Outcome {
    let seed = p.seed;
    // (a) vector histories, with streams dropped at awkward moments
    let g = GenCfg {
        caps: &[1, 2, 4, 16],
        min_ops: if p.san() { 3 } else { 5 },
        max_ops: if p.san() { 14 } else { 80 },
        maxlen: 10,
        vmax: 6,
        oob: true,
        trav: true,
        txn_pct: 30,
        max_subs: 4,
        poll_pct: 25,
        drop_vec_pct: 15,
        drop_all_pm: 15,
        init_max: 5,
    };
    let nt_vec = |f: &crate::engine_vec::Facts| f.msgs >= 1 && f.subs >= 1;
    let gen_a = "c20-vec";
    let mut out = p.cases(gen_a, p.n(40_000, 1_000_000), |i, out| {
        let mut rng = Rng::new(mix(seed, mix(hash_of(&gen_a), i)));
        let mut h = gen_vec_history(&mut rng, &g);
        // scripted tail: a stream dropped in the middle of a multi-diff batch, with and without
        // further traffic; a stream dropped while lagging; the vector dropped first
        if rng.chance(1, 2) && !h.ops.iter().any(|o| matches!(o, HOp::DropVec | HOp::DropVecIntoInner)) {
            let s = h.ops.iter().filter(|o| matches!(o, HOp::Sub { .. } | HOp::SubLazy { .. })).count();
            h.ops.push(HOp::Sub { batched: false });
            h.ops.push(HOp::V(VOp::Txn(vec![VOp::PushBack(1), VOp::PushBack(2), VOp::PushFront(3)], TxEnd::Commit)));
            if rng.chance(1, 2) {
                h.ops.push(HOp::V(VOp::PushBack(4)));
            }
            h.ops.push(HOp::Poll { sub: s, max: rng.range(1, 2) });
            h.ops.push(HOp::DropSub(s));
            for _ in 0..rng.below(3) {
                h.ops.push(HOp::V(VOp::PushBack(5)));
            }
        }
        judge_vec("C20", &h, json!({"gen": gen_a, "case": i, "seed": seed}), out, &nt_vec);
        let (c, cl, d) = table_counts();
        out.ev.extra.insert("tracked_values_thread_sample".into(), json!({"created": c, "cloned": cl, "dropped": d}));
    });
    // (b) adapter chains
    let ag = AGen {
        caps: &[1, 2, 4, 16],
        maxlen: 10,
        vmax: 14,
        min_ops: if p.san() { 2 } else { 4 },
        max_ops: if p.san() { 10 } else { 40 },
        txn_pct: 20,
        param_pct: 20,
        poll_pct: 30,
        close_pm: 15,
        drop_pm: 15,
        trav: true,
        init_max: 6,
        lazy_only: false,
        far_runs: false,
    };
    let gen_b = "c20-adp";
    out.merge(p.cases(gen_b, p.n(40_000, 1_000_000), |i, out| {
        let mut rng = Rng::new(mix(seed, mix(hash_of(&gen_b), i)));
        let n = rng.range(1, 3);
        let chain: Vec<Stage> = (0..n).map(|_| gen_stage(&mut rng, ALL_PKS, 6)).collect();
        let batched = rng.chance(1, 2);
        let mut h: AdpHistory = gen_adp_history(&mut rng, chain, batched, &ag);
        // leave the chain in the middle of a batch at the end now and then
        if rng.chance(1, 3) {
            h.ops.push(crate::engine_adp::AOp::Src(VOp::Txn(vec![VOp::PushBack(1), VOp::PushFront(2), VOp::PopBack], TxEnd::Commit)));
            h.ops.push(crate::engine_adp::AOp::Poll(1));
        }
        judge_adp("C20", &h, &p.known, json!({"gen": gen_b, "case": i, "seed": seed}), out, &|f| f.diffs_in >= 1);
    }));
    // (b2) the same on large vectors (several imbl chunks; in-place tree surgery on elements that own memory)
    if !p.san() {
        let gbig = AGen { maxlen: 110, init_max: 90, vmax: 400, max_ops: 30, ..ag.clone() };
        let gen_b2 = "c20-adp-large";
        out.merge(p.cases(gen_b2, p.n(4_000, 100_000), |i, out| {
            let mut rng = Rng::new(mix(seed, mix(hash_of(&gen_b2), i)));
            let n = rng.range(1, 2);
            let chain: Vec<Stage> = (0..n).map(|_| gen_stage(&mut rng, ALL_PKS, 80)).collect();
            let batched = rng.chance(1, 2);
            let h: AdpHistory = gen_adp_history(&mut rng, chain, batched, &gbig);
            judge_adp("C20", &h, &p.known, json!({"gen": gen_b2, "case": i, "seed": seed}), out, &|f| f.diffs_in >= 1);
        }));
        let big = GenCfg { maxlen: 160, init_max: 130, vmax: 500, max_ops: 40, ..g };
        let gen_a2 = "c20-vec-large";
        out.merge(p.cases(gen_a2, p.n(3_000, 60_000), |i, out| {
            let mut rng = Rng::new(mix(seed, mix(hash_of(&gen_a2), i)));
            let h = gen_vec_history(&mut rng, &big);
            judge_vec("C20", &h, json!({"gen": gen_a2, "case": i, "seed": seed}), out, &nt_vec);
        }));
    }
    // (c) observables, both flavours (incl. into_shared with and without subscribers)
    let gen_c = "c20-obs";
    out.merge(p.cases(gen_c, p.n(20_000, 500_000), |i, out| {
        let mut rng = Rng::new(mix(seed, mix(hash_of(&gen_c), i)));
        let shared = rng.chance(1, 2);
        let h: ObsHistory = gen_obs_history(&mut rng, shared, if p.san() { 4 } else { 10 }, if p.san() { 16 } else { 120 });
        let case = json!({"gen": gen_c, "case": i, "seed": seed});
        for asyncfl in [false, true] {
            out.ev.evaluations += 1;
            let r = catch_unwind(AssertUnwindSafe(|| {
                if asyncfl {
                    crate::engine_obs::run_obs_history::<AsyncFl>(&h)
                } else {
                    crate::engine_obs::run_obs_history::<SyncFl>(&h)
                }
            }));
            match r {
                Ok(Ok(f)) => {
                    out.ev.add("observable_notifying_updates", f.notifying);
                    out.ev.add("observable_into_shared", f.into_shared);
                    out.ev.add("observable_subscribers_created", f.subs_created);
                    if f.notifying >= 1 {
                        out.ev.nontrivial(hash_of(&(asyncfl, &h)));
                    }
                }
                Ok(Err(d)) if d.prop.split('|').any(|x| x == "C20") => {
                    out.violations.push(Violation { property: "C20".into(), case: case.clone(), history: h.show(), what: d.what })
                }
                Ok(Err(d)) => {
                    out.ev.foreign += 1;
                    out.ev.count(&format!("foreign_divergence_{}", d.prop));
                }
                Err(_) => out.violations.push(Violation {
                    property: "C20".into(),
                    case: case.clone(),
                    history: h.show(),
                    what: format!("unexpected panic: {}", last_panic()),
                }),
            }
        }
    }));
    let _: Option<VecHistory> = None;
    // (d) the races around the last owner (drop || upgrade, two last clones, into_shared || subscriber drop)
    // with a payload registered in a process-wide table, every order at the pause points
    out.merge(crate::runners_thr::run_c20_threads(p));
    // (e) histories in which a user callback or a trait impl of the element type panics and is caught
    out.merge(crate::runners_unwind::run_unwind(p, "C20"));
    out
}
