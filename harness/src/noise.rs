//! Bystander objects: an unrelated observable, vector and adapter chain that live on the same thread as the
//! history under test and are used a little between its operations. Any state the library shares between objects
//! (a `thread_local!` / `static` pool, cache or scratch buffer) makes the bystanders and the objects under test
//! disturb each other; both sides are monitored. (Process-wide state is also exercised by the worker threads that
//! run different histories at the same time.)

use std::{
    pin::Pin,
    sync::Arc,
    task::{Context, Poll},
};

use eyeball::{SharedObservable, Subscriber};
use eyeball_im::{ObservableVector, VectorDiff};
use eyeball_im_util::vector::VectorObserverExt;
use futures_core::Stream;

use crate::common::*;

type Dyn1 = Pin<Box<dyn Stream<Item = VectorDiff<Tracked>>>>;

pub struct Noise {
    obs: SharedObservable<Tracked>,
    osub: Subscriber<Tracked>,
    /// waker of the observable subscriber's last Pending poll
    opending: Option<Arc<FlagWaker>>,
    oval: u32,
    vec: ObservableVector<Tracked>,
    vsub: Dyn1,
    vrep: Vec<Item>,
    vpending: Option<Arc<FlagWaker>>,
    /// filter(even) . head(3) over the same vector
    adp: Dyn1,
    arep: Vec<Item>,
    apending: Option<Arc<FlagWaker>>,
    ticks: u64,
}

impl Default for Noise {
    fn default() -> Self {
        Self::new()
    }
}

impl Noise {
    pub fn new() -> Noise {
        let obs = SharedObservable::new(Tracked::new(1000));
        let osub = obs.subscribe();
        let mut vec = ObservableVector::with_capacity(8);
        for v in [1002u32, 1003, 1004] {
            vec.push_back(Tracked::new(v));
        }
        let (vals, s) = vec.subscribe().into_values_and_stream();
        let (avals, a) = vec.subscribe().filter(|t: &Tracked| t.v % 2 == 0).head(3);
        Noise {
            obs,
            osub,
            opending: None,
            oval: 1000,
            vec,
            vsub: Box::pin(s),
            vrep: items_of(vals.iter()),
            vpending: None,
            adp: Box::pin(a),
            arep: items_of(avals.iter()),
            apending: None,
            ticks: 0,
        }
    }

    /// one small step; Err((tags, what)) if a bystander misbehaves
    pub fn tick(&mut self, r: u64) -> Result<(), (&'static str, String)> {
        self.ticks += 1;
        match r % 7 {
            0 | 1 => {
                // observable: set, the waiting subscriber must have been woken and is handed the value
                self.oval = 1000 + (r % 50) as u32 * 2;
                drop(self.obs.set(Tracked::new(self.oval)));
                if let Some(p) = self.opending.take() {
                    if !p.woken() {
                        return Err(("C02", "bystander observable: its pending subscriber was not woken by set()".into()));
                    }
                }
                let (f, w) = flag_waker();
                let mut cx = Context::from_waker(&w);
                match Pin::new(&mut self.osub).poll_next(&mut cx) {
                    Poll::Ready(Some(t)) if t.v == self.oval => {}
                    other => {
                        return Err(("C01", format!("bystander observable: after set({}) its subscriber answered {:?}", self.oval, other.map(|o| o.map(|t| t.v)))))
                    }
                }
                match Pin::new(&mut self.osub).poll_next(&mut cx) {
                    Poll::Pending => self.opending = Some(f),
                    other => return Err(("C01", format!("bystander observable: second poll answered {:?}, expected Pending", other.map(|o| o.map(|t| t.v))))),
                }
            }
            2..=4 => {
                let v = 1000 + (r >> 8) as u32 % 40;
                match (r >> 4) % 4 {
                    0 if self.vec.len() > 6 => drop(self.vec.pop_front()),
                    0 | 1 => self.vec.push_back(Tracked::new(v)),
                    2 if !self.vec.is_empty() => drop(self.vec.set(self.vec.len() / 2, Tracked::new(v))),
                    _ => drop(self.vec.pop_back()),
                }
            }
            5 => self.drain()?,
            _ => {
                // everything is replaced (old objects die while the history under test is in the middle of its own)
                if r % 5 == 0 {
                    self.drain()?;
                    *self = Noise::new();
                }
            }
        }
        Ok(())
    }

    fn drain(&mut self) -> Result<(), (&'static str, String)> {
        let contents = items_of(self.vec.iter());
        for which in 0..2 {
            let (s, rep, pend, name) = if which == 0 {
                (&mut self.vsub, &mut self.vrep, &mut self.vpending, "subscriber stream")
            } else {
                (&mut self.adp, &mut self.arep, &mut self.apending, "filter(even).head(3)")
            };
            for _ in 0..10_000 {
                let (f, w) = flag_waker();
                let mut cx = Context::from_waker(&w);
                let r = s.as_mut().poll_next(&mut cx);
                if r.is_ready() {
                    if let Some(p) = pend.take() {
                        if !p.woken() {
                            return Err(("C14", format!("bystander {name}: ready again although the waker of its last Pending poll was never woken")));
                        }
                    }
                }
                match r {
                    Poll::Ready(Some(d)) => {
                        if let Err(e) = D::of(&d).checked_apply(rep) {
                            return Err(("C05|C06|C10", format!("bystander {name}: inapplicable diff: {e}")));
                        }
                    }
                    Poll::Ready(None) => return Err(("C08", format!("bystander {name} ended although its vector is alive"))),
                    Poll::Pending => {
                        *pend = Some(f);
                        break;
                    }
                }
            }
            let want: Vec<Item> =
                if which == 0 { contents.clone() } else { contents.iter().filter(|i| i.v % 2 == 0).take(3).cloned().collect() };
            if vals(rep) != vals(&want) {
                return Err((
                    if which == 0 { "C05|C06" } else { "C09|C10|C12" },
                    format!("bystander {name}: at Pending it shows {:?}, expected {:?}", vals(rep), vals(&want)),
                ));
            }
        }
        Ok(())
    }
}
