//! Source operations on an `ObservableVector<Tracked>` (and on a transaction), their plain-`Vec`
//! model, and an executor that compares return values / panics with the model (C17) on every call.

use std::panic::{catch_unwind, AssertUnwindSafe};

use eyeball_im::{
    ObservableVector, ObservableVectorEntry, ObservableVectorTransaction,
    ObservableVectorTransactionEntry,
};
use imbl::Vector;

use crate::common::*;

#[derive(Clone, Debug, PartialEq, Eq, Hash)]
pub enum Dec {
    Keep,
    Set(u32),
    Remove,
    SetRemove(u32),
    /// two sets through one and the same entry handle
    SetSet(u32, u32),
    Stop,
}

#[derive(Clone, Debug, PartialEq, Eq, Hash)]
pub enum TxEnd {
    Commit,
    Drop,
    /// the transaction is leaked (`mem::forget`): it is abandoned, its destructor never runs
    Forget,
    RollbackDrop,
    /// rollback, then more operations, then commit (true) or drop (false)
    RollbackThen(Vec<VOp>, bool),
}

#[derive(Clone, Debug, PartialEq, Eq, Hash)]
pub enum VOp {
    Append(Vec<u32>),
    Clear,
    PushFront(u32),
    PushBack(u32),
    PopFront,
    PopBack,
    Insert(usize, u32),
    Set(usize, u32),
    Remove(usize),
    Truncate(usize),
    EntrySet(usize, u32),
    /// entry(i), then set twice through that one handle
    EntrySetTwice(usize, u32, u32),
    EntryRemove(usize),
    /// entry(i) only (to provoke the out-of-range panic), dropped at once
    EntryGet(usize),
    ForEach(Vec<Dec>),
    Entries(Vec<Dec>),
    Txn(Vec<VOp>, TxEnd),
    /// harness operation (no library call): drop every subscriber stream, also the reference one, at this
    /// point - inside a transaction body this leaves the vector without receivers mid-transaction
    DropSubs,
}

impl VOp {
    pub fn show(&self) -> String {
        match self {
            VOp::Append(v) => format!("append{v:?}"),
            VOp::Clear => "clear".into(),
            VOp::PushFront(v) => format!("push_front({v})"),
            VOp::PushBack(v) => format!("push_back({v})"),
            VOp::PopFront => "pop_front".into(),
            VOp::PopBack => "pop_back".into(),
            VOp::Insert(i, v) => format!("insert({i},{v})"),
            VOp::Set(i, v) => format!("set({i},{v})"),
            VOp::Remove(i) => format!("remove({i})"),
            VOp::Truncate(n) => format!("truncate({n})"),
            VOp::EntrySet(i, v) => format!("entry({i}).set({v})"),
            VOp::EntrySetTwice(i, a, b) => format!("e = entry({i}); e.set({a}); e.set({b})"),
            VOp::EntryRemove(i) => format!("entry({i}).remove"),
            VOp::EntryGet(i) => format!("entry({i})"),
            VOp::ForEach(d) => format!("for_each{d:?}"),
            VOp::Entries(d) => format!("entries{d:?}"),
            VOp::DropSubs => "[drop all subscribers]".into(),
            VOp::Txn(body, end) => {
                let b: Vec<String> = body.iter().map(|o| o.show()).collect();
                let e = match end {
                    TxEnd::Commit => "commit".to_string(),
                    TxEnd::Drop => "drop".to_string(),
                    TxEnd::Forget => "mem::forget".to_string(),
                    TxEnd::RollbackDrop => "rollback;drop".to_string(),
                    TxEnd::RollbackThen(more, c) => {
                        let m: Vec<String> = more.iter().map(|o| o.show()).collect();
                        format!("rollback;{};{}", m.join(";"), if *c { "commit" } else { "drop" })
                    }
                };
                format!("txn{{{};{}}}", b.join(";"), e)
            }
        }
    }
    /// upper bound of the number of messages this top-level operation publishes (a direct call: one; a traversal:
    /// one per set / remove made through its entries; a transaction: one)
    pub fn max_messages(&self) -> u64 {
        let decs = |d: &Vec<Dec>| -> u64 {
            d.iter()
                .map(|x| match x {
                    Dec::Keep | Dec::Stop => 0,
                    Dec::Set(_) | Dec::Remove => 1,
                    Dec::SetRemove(_) | Dec::SetSet(..) => 2,
                })
                .sum()
        };
        match self {
            VOp::ForEach(d) | VOp::Entries(d) => decs(d),
            VOp::EntrySetTwice(..) => 2,
            VOp::DropSubs => 0,
            _ => 1,
        }
    }
    pub fn kind(&self) -> &'static str {
        match self {
            VOp::Append(_) => "append",
            VOp::Clear => "clear",
            VOp::PushFront(_) => "push_front",
            VOp::PushBack(_) => "push_back",
            VOp::PopFront => "pop_front",
            VOp::PopBack => "pop_back",
            VOp::Insert(..) => "insert",
            VOp::Set(..) => "set",
            VOp::Remove(_) => "remove",
            VOp::Truncate(_) => "truncate",
            VOp::EntrySet(..) => "entry.set",
            VOp::EntrySetTwice(..) => "entry.set x2",
            VOp::EntryRemove(_) => "entry.remove",
            VOp::EntryGet(_) => "entry",
            VOp::ForEach(_) => "for_each",
            VOp::Entries(_) => "entries",
            VOp::Txn(..) => "txn",
            VOp::DropSubs => "drop_subs",
        }
    }
}

#[derive(Clone, Debug, PartialEq, Eq)]
pub enum Ret {
    Unit,
    Opt(Option<u32>),
    Val(u32),
    /// values seen through the entries, in visiting order, and the index() each reported
    Visit(Vec<(u32, usize)>),
    Panic,
}

/// Plain-vector model of one (non-transaction) operation. `m` is left untouched on Panic.
pub fn model_op(m: &mut Vec<u32>, op: &VOp) -> Ret {
    let len = m.len();
    match op {
        VOp::Append(v) => {
            m.extend_from_slice(v);
            Ret::Unit
        }
        VOp::Clear => {
            m.clear();
            Ret::Unit
        }
        VOp::PushFront(v) => {
            m.insert(0, *v);
            Ret::Unit
        }
        VOp::PushBack(v) => {
            m.push(*v);
            Ret::Unit
        }
        VOp::PopFront => Ret::Opt(if len == 0 { None } else { Some(m.remove(0)) }),
        VOp::PopBack => Ret::Opt(m.pop()),
        VOp::Insert(i, v) => {
            if *i > len {
                return Ret::Panic;
            }
            m.insert(*i, *v);
            Ret::Unit
        }
        VOp::Set(i, v) | VOp::EntrySet(i, v) => {
            if *i >= len {
                return Ret::Panic;
            }
            Ret::Val(std::mem::replace(&mut m[*i], *v))
        }
        VOp::EntrySetTwice(i, a, b) => {
            if *i >= len {
                return Ret::Panic;
            }
            m[*i] = *b;
            Ret::Val(*a)
        }
        VOp::Remove(i) | VOp::EntryRemove(i) => {
            if *i >= len {
                return Ret::Panic;
            }
            Ret::Val(m.remove(*i))
        }
        VOp::EntryGet(i) => {
            if *i >= len {
                return Ret::Panic;
            }
            Ret::Val(m[*i])
        }
        VOp::Truncate(n) => {
            if *n < len {
                m.truncate(*n);
            }
            Ret::Unit
        }
        VOp::ForEach(decs) | VOp::Entries(decs) => {
            let can_stop = matches!(op, VOp::Entries(_));
            let mut idx = 0;
            let mut k = 0;
            let mut seen = vec![];
            while idx < m.len() {
                let dec = decs.get(k).cloned().unwrap_or(Dec::Keep);
                k += 1;
                if can_stop && dec == Dec::Stop {
                    break;
                }
                seen.push((m[idx], idx));
                match dec {
                    Dec::Keep | Dec::Stop => idx += 1,
                    Dec::Set(v) => {
                        m[idx] = v;
                        idx += 1;
                    }
                    Dec::Remove => {
                        m.remove(idx);
                    }
                    Dec::SetRemove(v) => {
                        m[idx] = v;
                        m.remove(idx);
                    }
                    Dec::SetSet(_, b) => {
                        m[idx] = b;
                        idx += 1;
                    }
                }
            }
            Ret::Visit(seen)
        }
        VOp::DropSubs => Ret::Unit,
        VOp::Txn(..) => unreachable!("transactions are modelled by the caller"),
    }
}

/// Does this (non-txn) operation publish something when executed directly on a non-empty/empty vector?
/// Returns the number of mutating *calls* it makes that send a message, given the model before.
pub fn direct_messages(before: &[u32], op: &VOp) -> usize {
    let mut m = before.to_vec();
    let len = m.len();
    match op {
        VOp::Append(_) | VOp::PushFront(_) | VOp::PushBack(_) => 1,
        VOp::Clear => (len > 0) as usize,
        VOp::PopFront | VOp::PopBack => (len > 0) as usize,
        VOp::Insert(i, _) => (*i <= len) as usize,
        VOp::Set(i, _) | VOp::EntrySet(i, _) | VOp::Remove(i) | VOp::EntryRemove(i) => {
            (*i < len) as usize
        }
        VOp::EntrySetTwice(i, _, _) => 2 * (*i < len) as usize,
        VOp::EntryGet(_) | VOp::DropSubs => 0,
        VOp::Truncate(n) => (*n < len) as usize,
        VOp::ForEach(decs) | VOp::Entries(decs) => {
            let can_stop = matches!(op, VOp::Entries(_));
            let mut idx = 0;
            let mut k = 0;
            let mut n = 0;
            while idx < m.len() {
                let dec = decs.get(k).cloned().unwrap_or(Dec::Keep);
                k += 1;
                if can_stop && dec == Dec::Stop {
                    break;
                }
                match dec {
                    Dec::Keep | Dec::Stop => idx += 1,
                    Dec::Set(_) => {
                        n += 1;
                        idx += 1;
                    }
                    Dec::Remove => {
                        n += 1;
                        m.remove(idx);
                    }
                    Dec::SetRemove(_) => {
                        n += 2;
                        m.remove(idx);
                    }
                    Dec::SetSet(..) => {
                        n += 2;
                        idx += 1;
                    }
                }
            }
            n
        }
        VOp::Txn(..) => unreachable!(),
    }
}

fn tv(v: &[u32]) -> Vector<Tracked> {
    v.iter().map(|x| Tracked::new(*x)).collect()
}

macro_rules! exec_impl {
    ($name:ident, $Target:ty, $Entry:ident) => {
        /// Execute one non-transaction operation; `after_call` runs after every mutating library call
        /// (also from inside traversal closures). Returns what the library returned (values only), and
        /// for traversals the ids seen through the entries.
        pub fn $name(
            t: &mut $Target,
            op: &VOp,
            after_call: &mut dyn FnMut(),
        ) -> (Ret, Vec<u32>) {
            let mut ids = vec![];
            let r = catch_unwind(AssertUnwindSafe(|| match op {
                VOp::Append(v) => {
                    t.append(tv(v));
                    after_call();
                    Ret::Unit
                }
                VOp::Clear => {
                    t.clear();
                    after_call();
                    Ret::Unit
                }
                VOp::PushFront(v) => {
                    t.push_front(Tracked::new(*v));
                    after_call();
                    Ret::Unit
                }
                VOp::PushBack(v) => {
                    t.push_back(Tracked::new(*v));
                    after_call();
                    Ret::Unit
                }
                VOp::PopFront => {
                    let r = t.pop_front().map(|x| x.v);
                    after_call();
                    Ret::Opt(r)
                }
                VOp::PopBack => {
                    let r = t.pop_back().map(|x| x.v);
                    after_call();
                    Ret::Opt(r)
                }
                VOp::Insert(i, v) => {
                    t.insert(*i, Tracked::new(*v));
                    after_call();
                    Ret::Unit
                }
                VOp::Set(i, v) => {
                    let r = t.set(*i, Tracked::new(*v)).v;
                    after_call();
                    Ret::Val(r)
                }
                VOp::Remove(i) => {
                    let r = t.remove(*i).v;
                    after_call();
                    Ret::Val(r)
                }
                VOp::Truncate(n) => {
                    t.truncate(*n);
                    after_call();
                    Ret::Unit
                }
                VOp::EntrySet(i, v) => {
                    let mut e = t.entry(*i);
                    let r = $Entry::set(&mut e, Tracked::new(*v)).v;
                    drop(e);
                    after_call();
                    Ret::Val(r)
                }
                VOp::EntrySetTwice(i, a, b) => {
                    let mut e = t.entry(*i);
                    let _first = $Entry::set(&mut e, Tracked::new(*a));
                    after_call();
                    let r = $Entry::set(&mut e, Tracked::new(*b)).v;
                    drop(e);
                    after_call();
                    Ret::Val(r)
                }
                VOp::EntryRemove(i) => {
                    let e = t.entry(*i);
                    let r = $Entry::remove(e).v;
                    after_call();
                    Ret::Val(r)
                }
                VOp::EntryGet(i) => {
                    let e = t.entry(*i);
                    let r = e.v;
                    drop(e);
                    Ret::Val(r)
                }
                VOp::ForEach(decs) => {
                    let mut k = 0;
                    let mut seen = vec![];
                    t.for_each(|mut e| {
                        let dec = decs.get(k).cloned().unwrap_or(Dec::Keep);
                        k += 1;
                        seen.push((e.v, $Entry::index(&e)));
                        ids.push(e.tag());
                        match dec {
                            Dec::Keep | Dec::Stop => {}
                            Dec::Set(v) => {
                                $Entry::set(&mut e, Tracked::new(v));
                                after_call();
                            }
                            Dec::Remove => {
                                $Entry::remove(e);
                                after_call();
                            }
                            Dec::SetRemove(v) => {
                                $Entry::set(&mut e, Tracked::new(v));
                                after_call();
                                $Entry::remove(e);
                                after_call();
                            }
                            Dec::SetSet(a, b) => {
                                $Entry::set(&mut e, Tracked::new(a));
                                after_call();
                                $Entry::set(&mut e, Tracked::new(b));
                                after_call();
                            }
                        }
                    });
                    Ret::Visit(seen)
                }
                VOp::Entries(decs) => {
                    let mut k = 0;
                    let mut seen = vec![];
                    let mut entries = t.entries();
                    while let Some(mut e) = entries.next() {
                        let dec = decs.get(k).cloned().unwrap_or(Dec::Keep);
                        k += 1;
                        if dec == Dec::Stop {
                            // leave without touching the entry: the rest must stay untouched
                            drop(e);
                            break;
                        }
                        seen.push((e.v, $Entry::index(&e)));
                        ids.push(e.tag());
                        match dec {
                            Dec::Keep | Dec::Stop => {}
                            Dec::Set(v) => {
                                $Entry::set(&mut e, Tracked::new(v));
                                after_call();
                            }
                            Dec::Remove => {
                                $Entry::remove(e);
                                after_call();
                            }
                            Dec::SetRemove(v) => {
                                $Entry::set(&mut e, Tracked::new(v));
                                after_call();
                                $Entry::remove(e);
                                after_call();
                            }
                            Dec::SetSet(a, b) => {
                                $Entry::set(&mut e, Tracked::new(a));
                                after_call();
                                $Entry::set(&mut e, Tracked::new(b));
                                after_call();
                            }
                        }
                    }
                    Ret::Visit(seen)
                }
                VOp::DropSubs => Ret::Unit,
                VOp::Txn(..) => unreachable!("transactions are executed by the caller"),
            }));
            match r {
                Ok(r) => (r, ids),
                Err(_) => (Ret::Panic, ids),
            }
        }
    };
}

exec_impl!(exec_on_vec, ObservableVector<Tracked>, ObservableVectorEntry);
exec_impl!(exec_on_txn, ObservableVectorTransaction<'_, Tracked>, ObservableVectorTransactionEntry);

pub fn contents(v: &Vector<Tracked>) -> Vec<Item> {
    items_of(v.iter())
}

// ---------------------------------------------------------------------------------------------
// generators

/// Random non-transaction operation on a vector of length `len`; values below `vmax`.
/// `oob`: allow out-of-range indices (panics), `trav`: allow traversals/entries.
pub fn gen_vop(rng: &mut Rng, len: usize, vmax: u32, oob: bool, trav: bool, maxlen: usize) -> VOp {
    let v = |rng: &mut Rng| rng.below(vmax as usize) as u32;
    let grow_ok = len < maxlen;
    loop {
        let k = rng.below(if trav { 16 } else { 11 });
        let idx_in = |rng: &mut Rng, upto: usize| -> Option<usize> {
            // upto = number of valid indices
            if oob && rng.chance(1, 12) {
                if rng.chance(1, 5) {
                    Some(*rng.pick(&[usize::MAX, usize::MAX - 1, usize::MAX / 2, usize::MAX / 2 + 1]))
                } else {
                    Some(upto + rng.below(3))
                }
            } else if upto == 0 {
                None
            } else {
                Some(rng.below(upto))
            }
        };
        return match k {
            0 if grow_ok => {
                // mostly short; now and then a chunk of dozens of values (longer than small limits and views)
                // (scale mode: one append in five carries more than a thousand values)
                let n = if vmax >= 20_000 && maxlen > 4000 && rng.chance(1, 5) {
                    rng.range(1024, 3000)
                } else if rng.chance(1, 8) {
                    rng.range(4, 40)
                } else {
                    rng.below(4)
                };
                VOp::Append((0..n).map(|_| v(rng)).collect())
            }
            1 if rng.chance(1, 3) => VOp::Clear,
            2 if grow_ok => VOp::PushFront(v(rng)),
            3 if grow_ok => VOp::PushBack(v(rng)),
            4 => VOp::PopFront,
            5 => VOp::PopBack,
            6 if grow_ok => match idx_in(rng, len + 1) {
                Some(i) => VOp::Insert(i, v(rng)),
                None => continue,
            },
            7 => match idx_in(rng, len) {
                Some(i) => VOp::Set(i, v(rng)),
                None => continue,
            },
            8 => match idx_in(rng, len) {
                Some(i) => VOp::Remove(i),
                None => continue,
            },
            9 if rng.chance(1, 2) => {
                if rng.chance(1, 15) {
                    VOp::Truncate(*rng.pick(&[usize::MAX, usize::MAX - 1, usize::MAX / 2 + 1]))
                } else {
                    VOp::Truncate(rng.below(len + 3))
                }
            }
            10 if grow_ok => VOp::PushBack(v(rng)),
            11 => match idx_in(rng, len) {
                Some(i) => {
                    if rng.chance(1, 3) {
                        VOp::EntrySetTwice(i, v(rng), v(rng))
                    } else {
                        VOp::EntrySet(i, v(rng))
                    }
                }
                None => continue,
            },
            12 => match idx_in(rng, len) {
                Some(i) => VOp::EntryRemove(i),
                None => continue,
            },
            13 if oob => VOp::EntryGet(rng.below(len + 2)),
            14 if rng.chance(1, 2) => VOp::ForEach(gen_decs(rng, len, vmax, false)),
            15 if rng.chance(1, 2) => VOp::Entries(gen_decs(rng, len, vmax, true)),
            _ => continue,
        };
    }
}

pub fn gen_decs(rng: &mut Rng, len: usize, vmax: u32, stop: bool) -> Vec<Dec> {
    (0..len)
        .map(|_| match rng.below(if stop { 9 } else { 8 }) {
            0..=3 => Dec::Keep,
            4 => Dec::Set(rng.below(vmax as usize) as u32),
            5 => {
                if rng.chance(1, 2) {
                    Dec::SetSet(rng.below(vmax as usize) as u32, rng.below(vmax as usize) as u32)
                } else {
                    Dec::Set(rng.below(vmax as usize) as u32)
                }
            }
            6 => Dec::Remove,
            7 => Dec::SetRemove(rng.below(vmax as usize) as u32),
            _ => Dec::Stop,
        })
        .collect()
}

/// Random transaction body of `n` operations starting from length `len`.
pub fn gen_body(rng: &mut Rng, mut len: usize, n: usize, vmax: u32, oob: bool, trav: bool, maxlen: usize) -> Vec<VOp> {
    let mut m: Vec<u32> = vec![0; len];
    let mut body = vec![];
    let mut k = 0;
    while k < n {
        // long bodies: now and then an uninterrupted run of one and the same kind of call (a bulk load, a bulk
        // removal, a sweep of sets) - a random mix never produces thirty identical calls in a row
        if n >= 33 && rng.chance(1, 12) {
            let run = rng.range(30, 70).min(n - k);
            let kind = rng.below(4);
            for j in 0..run {
                let v = rng.below(vmax as usize) as u32;
                let op = match kind {
                    0 => VOp::PushBack(v),
                    1 => VOp::PushFront(v),
                    2 if len > 0 => VOp::Set(j % len, v),
                    _ => {
                        if rng.chance(1, 2) {
                            VOp::PopBack
                        } else {
                            VOp::PopFront
                        }
                    }
                };
                model_op(&mut m, &op);
                len = m.len();
                body.push(op);
            }
            k += run;
            continue;
        }
        let op = gen_vop(rng, len, vmax, oob, trav, maxlen);
        model_op(&mut m, &op);
        len = m.len();
        body.push(op);
        k += 1;
    }
    body
}

/// VH_NO_LEAKS=1 (set by the sanitizer passes of the driver): histories must not leak anything on purpose
pub fn no_leaks() -> bool {
    static V: std::sync::OnceLock<bool> = std::sync::OnceLock::new();
    *V.get_or_init(|| std::env::var("VH_NO_LEAKS").is_ok() || crate::engine_thr::small())
}

pub fn gen_txn(rng: &mut Rng, len: usize, vmax: u32, oob: bool, trav: bool, maxlen: usize) -> VOp {
    // mostly short bodies; now and then a transaction that records dozens of diffs (more than 32, 64, 128)
    // (scale mode, signalled by a value domain of 20,000: one transaction in five records thousands of diffs)
    let n = if vmax >= 20_000 && rng.chance(1, 5) {
        rng.range(1100, 5000)
    } else if rng.chance(1, 40) {
        rng.range(33, 140)
    } else {
        rng.below(5)
    };
    let mut body = gen_body(rng, len, n, vmax, oob, trav, maxlen);
    let end = match rng.below(10) {
        0..=5 => TxEnd::Commit,
        // (not under the sanitizers: Miri's and LSan's leak checks would rightly report the leaked transaction)
        6 if rng.chance(1, 4) && !no_leaks() => TxEnd::Forget,
        6 => TxEnd::Drop,
        7 => TxEnd::RollbackDrop,
        _ => {
            let n2 = rng.below(3);
            let mut more = gen_body(rng, len, n2, vmax, oob, trav, maxlen);
            // a long body that ends on an uninterrupted run of one kind of call, rolled back and continued with
            // the same kind of call, now and then
            if n >= 33 && rng.chance(1, 2) {
                let kind = rng.below(3);
                let mk = |rng: &mut Rng| match kind {
                    0 => VOp::PushBack(rng.below(vmax as usize) as u32),
                    1 => VOp::PushFront(rng.below(vmax as usize) as u32),
                    _ => VOp::PopBack,
                };
                for _ in 0..rng.range(30, 70) {
                    let op = mk(rng);
                    body.push(op);
                }
                more.insert(0, mk(rng));
                more.insert(0, mk(rng));
            }
            TxEnd::RollbackThen(more, rng.chance(2, 3))
        }
    };
    VOp::Txn(body, end)
}

/// Builds the vector under test. Capacity 16 is what `new()`, `default()` and `From<Vector>` use, so
/// those constructors are exercised for it (chosen by the shape of the initial contents).
pub fn make_vector(capacity: usize, init: &[u32]) -> ObservableVector<Tracked> {
    let items = || -> Vector<Tracked> { init.iter().map(|v| Tracked::new(*v)).collect() };
    if capacity == 16 {
        match init.len() % 3 {
            0 => return ObservableVector::from(items()),
            1 => {
                let mut ob = ObservableVector::new();
                ob.append(items());
                return ob;
            }
            _ => {
                let mut ob = ObservableVector::default();
                if !init.is_empty() {
                    ob.append(items());
                }
                return ob;
            }
        }
    }
    let mut ob = ObservableVector::with_capacity(capacity);
    if !init.is_empty() {
        ob.append(items());
    }
    ob
}
