#!/usr/bin/env python3
"""Regenerates /verif/MANIFEST.json from the table below (run by hand after adding a check)."""
import json, os
ROOT = os.path.dirname(os.path.abspath(__file__))
props = [json.loads(l) for l in open(os.path.join(ROOT, "properties.jsonl"))]

TRUST = ("Trusted: the harness's executable reference models; imbl, tokio::sync::broadcast, readlock(-tokio), std as "
         "dependencies; the __verif pause points being faithful to where they are placed. Only executed histories / "
         "schedules count (bounded exhaustive sets + seeded random ones).")

CHECKS = {
 # id: (engine, category, text, technique, design_ref)
 "C01": ("obs+thr", "exploration", "Runtime monitor: call histories on the real Observable/SharedObservable (incl. write guards, read guards, clones, into_shared) are compared call by call with a version-counter model; payload type whose hash ignores one field separates equality from hash; exhaustive d<=4 (quick) / d<=5 (thorough) over a ~35-operation state-dependent alphabet for both observable kinds, random histories of 60-300 calls with <=5 subscribers, on both lock flavours; overlapping calls of the async-lock flavour (a subscriber's next()/next_ref() and a writer queued behind a held guard) through guard scripts.", "runtime monitoring: history + executable reference model", "5/C01"),
 "C02": ("obs+thr", "exploration", "Three monitors: (a) after every single operation of a sequential history every Pending subscriber's waker must have been woken if an update/close happened since (exhaustive d<=6 / 7, random); (b) director-forced schedules at the __verif pause points and at the clone of the supplied waker, 7 scenarios, all orders, verdict at join from poll results and wake flags; (c) free-running writer/subscriber threads with hook-injected yields and a timing-free quiescence oracle. The thread parts also run under ThreadSanitizer (thorough) and Miri (thorough).", "runtime monitoring: wake-obligation invariant + forced schedules + stress with quiescence oracle; TSan/Miri", "5/C02"),
 "C03": ("obs+thr", "exploration", "(a) owner-count model over clone/drop/downgrade/upgrade/into_shared/subscribe/poll histories (exhaustive d<=6 / 7, random); (b) director scenarios: two/three threads dropping the last clones, last drop || upgrade, drop || upgrade || poll - every order at sdrop:enter/decided, upgrade:between, close:*, poll:*; verdict at join: subscribers ended iff no handle left; (c) free-running rounds. Thread parts also under TSan/Miri in the thorough tier.", "runtime monitoring: reference model + forced schedules at the decision/release window", "5/C03"),
 "C04": ("thr", "exploration", "Offline checkers over recorded histories of 2-4 real threads: unique-valued register (exact order reconstructed from returned predecessors; real-time order; stale/early reads), contended conditional setters (never store an equal value; conservation of previous values), append-only list (no lost closure, prefix reads within completed/invoked bounds, subscribers monotone and handed the final value), guard exclusion; guard scenarios and the value-lock exclusion invariant under the director in every forced schedule; the register workload also on the async-lock flavour. Thorough tier repeats the workloads under ThreadSanitizer and Miri (many seeds).", "runtime monitoring: linearizability checking of recorded histories (unique values / append-only list), lock-exclusion invariant; TSan/Miri", "5/C04"),
 "C16": ("obs+thr", "exploration", "Differential: every C01/C02a/C03a history also runs on the async-lock flavour with a hand-rolled executor, judged by the same model and compared call by call with the sync run; randomised guard scripts (write guard held across subscriber polls, read guard held while writers wait: waiting writer woken on release, subscriber ready after the guard is dropped, lock free afterwards); multi-thread register workload on the async SharedObservable with park/unpark executors and the C04 checker.", "runtime monitoring: differential execution against the sync flavour + scripted guard oracles + recorded-history checker", "5/C16"),
 "C18": ("misc", "exploration", "Exhaustive small-scope execution: vectors of length 0..4 (6 thorough) x all eleven diff kinds x all indices/lengths 0..len+1 x payload sizes 0..3 x four mappings; apply compared with a Vec model, panics caught and compared with the documented condition, map/apply commutation and identity mapping checked; random vectors up to length 200.", "runtime monitoring: exhaustive execution against an executable model", "5/C18"),
 "C19": ("obs", "exploration", "Integer-counter model: after every single operation of clone/subscribe/subscriber-clone/downgrade/upgrade/weak-clone/into_shared/drop histories all four counts of every live handle are compared, for both lock flavours; exhaustive d<=6 (quick) / d<=7 (thorough), random beyond.", "runtime monitoring: invariant (counts == model) at every quiescent point", "5/C19"),
 "C20": ("all", "exploration", "Instrumented element type (construction/clone/drop table keyed by instance id) under bulk random histories of the vector, adapter and observable engines: no double drop, no use after drop, nothing alive at the end. Because a double drop that is real UB cannot be trusted to show in an in-process table, the verdict also needs the sanitizer passes: Miri (tree borrows, leak check) over small shards in the quick tier, more Miri plus an ASan/LSan build of the bulk run in the thorough tier.", "runtime monitoring: drop-accounting monitor + Miri + AddressSanitizer/LeakSanitizer", "5/C20"),
 "C05": ("vec", "exploration", "Runtime monitor: every history is executed on the real ObservableVector; a reference batched subscriber polled after every mutating call gives the message boundaries, every other subscriber's items are compared with the undelivered messages and replayed through a checked replica. Exhaustive for short sequences over all mutators/indices, seeded random beyond. Held-on-what-was-observed, not a proof.", "runtime monitoring: history + executable reference model (replica replay)", "5/C05"),
 "C06": ("vec+thr", "exploration", "Runtime monitor with an undelivered-message counter per subscriber: Reset only beyond capacity, Reset carries the current contents, replica == contents at every Pending, every diff applicable, each batched item brings the replica up to date; capacities 1,2,3,5,6,16,1000; exhaustive over a 7-step alphabet for capacities 1-3. A run that delivered no Reset is INCONCLUSIVE. Lag that begins while a subscriber is inside poll_next is only reachable across threads: a cross-thread variant (writer thread, each stream on its own park/unpark thread, also under TSan) checks replica == contents at the quiescent Pending after the writer finished and at the end.", "runtime monitoring: history + reference model with lag accounting; cross-thread rounds with a quiescence oracle; TSan", "5/C06"),
 "C07": ("vec", "fault_enumeration", "Every transaction body (closed under prefixes = every abandon point) x every way of ending it (commit, drop, rollback+drop, rollback+more+commit/drop) is executed on the real code, with 0/1/3 subscribers and capacities 1,2,16; contents, handle view, published messages and wakers are compared with the model after every step.", "runtime monitoring: fault (abandon-point) enumeration against a plain-Vec model", "5/C07"),
 "C08": ("vec", "exploration", "Histories end with the drop of the vector and a drain of every stream: pending items first, then None, replica == final contents, further polls stay None, pending wakers woken by the drop; six subscriber situations x capacities x both flavours enumerated, random beyond.", "runtime monitoring: drain-after-drop oracle over executed histories", "5/C08"),
 "C09": ("adp", "exploration", "Adapter engine with taps: at every Pending of the adapter the view rebuilt from initial values + diffs must be the first/last/remaining items of the real vector for the latest announced parameter; checked replica for applicability; end-of-stream compared with the source. Exhaustive d<=2 (quick) / d<=3 (thorough) over all diff kinds, indices, parameters 0..5, three construction forms, both flavours; random beyond, including vectors and limits beyond one imbl chunk (64).", "runtime monitoring: view oracle at quiescent points over tapped streams", "5/C09"),
 "C10": ("adp", "exploration", "As C09 for Filter/FilterMap with all 16 pass/fail assignments over value classes; Resets to all-rejected/all-kept/mixed contents arise from capacity-1 lazy histories; random histories include views of dozens of items over sources beyond one imbl chunk.", "runtime monitoring: view oracle at quiescent points", "5/C10"),
 "C11": ("adp", "exploration", "As C09 for Sort/SortBy/SortByKey; oracle = same multiset and ordered under the comparison (tie order free); values with ties.", "runtime monitoring: permutation+order oracle at quiescent points", "5/C11"),
 "C12": ("adp", "exploration", "Chains of 2-3 boxed stages with a tap below each; every stage's replica must be that stage's view of the replica below, from the initial values on; all pairs over a grid of 96 stage variants (incl. into_parts forms) exhaustively for d<=1 (quick) / d<=2 (thorough), random 2-3 stage chains beyond; bottom-up attribution.", "runtime monitoring: per-stage view oracle through transparent taps", "5/C12"),
 "C13": ("adp", "exploration", "Batched subscriber, transaction-rich histories: after every batch at every tap the replica must be the stage's view of a batch-boundary state of its input (source: a state between top-level operations), no empty batch, and batched-flattened == unbatched diffs for fixed-parameter chains when neither lagged.", "runtime monitoring: boundary-state oracle + flavour differential", "5/C13"),
 "C14": ("adp", "exploration", "Fresh flag waker per poll; a Ready poll after a Pending poll requires that Pending poll's waker to have been woken; evaluated after every single operation and lazily, for the plain stream, every adapter and random chains, with source updates, limit changes, limit-stream end and drop as inputs.", "runtime monitoring: wake-implication invariant on every poll", "5/C14"),
 "C15": ("adp", "exploration", "Fixed-limit head/tail, alone and inside random chains: len(view) <= limit after every single emitted diff (inside batches too) and for the initial values; exhaustive d<=3 (quick) / d<=4 (thorough).", "runtime monitoring: invariant checked after every diff", "5/C15"),
 "C17": ("vec", "exploration", "Every mutator with every index 0..len+2 directly and in transactions, all traversal decision sequences over {keep,set,remove,set-then-remove,stop} for lengths <=5 (quick) / <=6 (thorough): return values, contents, panics (catch_unwind), notifications and visiting order compared with a plain Vec model; vectors beyond one imbl chunk; transactions during which every receiver goes away (all bodies of length <=5 over a 6-operation alphabet).", "runtime monitoring: differential against a plain-Vec model", "5/C17"),
}

# workloads added after the third round of seeded changes (DESIGN.md 14.6)
ADD = {
 "C01": "Conditional setters that store nothing are also judged on the identity of the stored instance; same-waker mode; clone_from between observables; a director scenario runs subscribe + first poll on one thread against write accesses that do not notify on another (every order at the pause points); guard scripts 3 and 4 of C16 run here as well.",
 "C02": "Poll storms (dozens of distinct wakers pending between two updates), one-waker-per-subscriber mode, and a many-waiters thread round (up to 120 wakers pending at once against 1-3 writer threads).",
 "C04": "Director enumerations that do not finish within their budget are followed by sampled schedules. A many-waiters round (poller threads multiplexing 8-40 subscribers each) adds the lost-wakeup and final-value oracle for more than 32/64 simultaneous waiters.",
 "C05": "Subscribers turned into a stream only at their first poll, through each of the four constructors (random and enumerated). Backlog histories (capacities 64-1024, rare polls: one batched poll collects dozens of messages); transactions of 33-140 operations; a Reset for a subscriber that never fell behind is a C05 fault too.",
 "C06": "Late conversion of lagging subscribers (the values handed out must be a state the vector had; a lagging subscriber must get a Reset). Backlog histories around capacities 31-256 with hundreds of undelivered messages.",
 "C07": "One transaction in forty records 33-140 operations; large vectors (a traversal inside a transaction records one diff per element).",
 "C08": "Eight subscriber situations since round three (lagged with an empty final state, directly and via a transaction).",
 "C09": "Backlog generators (capacities 33-256, 80-300 operations, polls at 2%) and far runs (33-90 updates at one end of a long vector, then one at the other); a stage that stops before its input was Pending is judged against the vector's contents at that moment.",
 "C10": "Backlog generators as in C09.", "C11": "Backlog generators as in C09.",
 "C12": "Backlog and far-run generators as in C09.", "C13": "Backlog generator as in C09 (batched).",
 "C14": "Long histories, backlog and far-run generators (dozens of ignored/filtered updates consumed by one poll).",
 "C15": "Backlog and far-run generators as in C09.",
 "C16": "One-waker-per-subscriber mode (will_wake paths), poll storms; guard scripts with two queued setters (results must match one sequential order) and with next_now/next_ref_now started on a contended lock.",
 "C18": "Targets and payloads with an internal structure that comes from a history (carved out of larger vectors, shifted fronts, several leaves although short).",
 "C19": "Clone::clone_from between handles of two observables (also over the last owner); clone/drop/downgrade/upgrade of handles while a write or read guard is alive; Subscriber::clone_from across observables.",
 "C03": "Owners dropped while their thread unwinds from a panic. Clone::clone_from overwriting the last owner must end every subscriber stream like a drop does.",
 "C20": "Large-vector variants of the vector and adapter accounting runs.",
}

# workloads added after the ninth round (DESIGN.md 14.13)
UNW = "Unwinding histories: a user callback or a trait impl of the element type panics in the middle of a library call, the caller catches it and goes on; "
VAR = " ./check repeats the sequential monitors with the harness built for elements of 8, 164 and 4236 bytes (default 16) and with cargo profile `plain` (no debug assertions, wrapping arithmetic)."
VARP = " ./check repeats the sequential monitors with cargo profile `plain` (no debug assertions, wrapping arithmetic)."
ADD9 = {
 "C01": UNW + "after a Clone panic under a read lock an ordinary set() must still be delivered to every subscriber. An end of stream while an owner lives is reported here too (ready without an unobserved update), e.g. for observables built through Default." + VAR,
 "C02": "A poll that answers Pending although the end is available (reset subscriber polled after the close) is reported here too." + VARP,
 "C03": UNW + "after a Clone panic (nothing poisoned) every subscriber must still end once the owners are gone." + VARP,
 "C04": VARP.strip(),
 "C05": UNW + "after a panic inside a for_each closure or an out-of-range call every subscriber's replica must equal the contents at its next Pending; a transaction in which one call panicked (out of range, or the element's Clone inside the library or inside imbl's copy-on-write of a one-chunk vector) and that is committed afterwards must publish exactly pre-state -> contents." + VAR,
 "C06": UNW + "replica == contents at Pending and only applicable diffs after the caught panic." + VAR,
 "C07": UNW + "a transaction dropped by the unwinding leaves no trace; a transaction committed after one of its calls panicked publishes exactly what its handle showed." + VAR,
 "C08": UNW + "after the caught panic, further calls and the drop, every stream ends on the final contents." + VAR,
 "C09": "Limits and counts at the edges of usize and isize (usize::MAX = 'no limit'); two adapters driven by one limit observable whose subscriber was polled and then cloned / clone_reset (views and ends judged per adapter)." + VAR,
 "C10": VAR.strip(), "C11": VAR.strip(),
 "C12": "Limits and counts at the edges of usize and isize in chains." + VAR,
 "C13": "Whether a history lagged is decided by an upper bound of the messages that can have been waiting, not by the arrival of a Reset: a Reset without lag no longer removes a history from the batched-vs-unbatched comparison." + VAR,
 "C14": "Two adapters on one limit observable (the limit subscriber polled to Pending, then cloned or clone_reset), polled with different wakers: the wake implication is evaluated per adapter." + VAR,
 "C15": "Huge limits." + VAR,
 "C16": UNW + "after a Clone panic inside poll_next the async subscriber must keep working like the sync one (no panic on later polls, value delivered, end reported)." + VAR,
 "C17": "Indices and lengths at the edges of usize (usize::MAX, usize::MAX-1, isize::MAX+1) for insert/set/remove/entry/truncate, directly and in transactions." + VAR,
 "C18": "Mapped element types of 0, 1, 72 and 4800 bytes; a panic inside VectorDiff::map is a violation." + VARP,
 "C19": UNW + "after a caught Clone panic the counts must still equal the live handles and subscribers." + VARP,
 "C20": UNW + "(update / update_if closures incl. one that owns the taken value, write guards alive while unwinding, PartialEq / Hash / Clone / Ord of the element, for_each closures, transactions alive while unwinding, out-of-range calls, filter / filter_map / sort_by / sort_by_key callbacks on plain and batched streams, also while the adapter is built): no double drop, no use after drop, nothing alive at the end (leaks are tolerated only where imbl's own inline representation leaks on a panicking Clone)." + VAR,
}

# workloads added after the tenth round (DESIGN.md 14.12b)
MAR = " Marathons: 20-24 histories of 20,000-220,000 operations on one long-lived object, judged by the same engine."
ADD10 = {
 "C01": MAR + " Quiet spells of 66,000-140,000 Pending polls without an update. Bystander objects (an unrelated observable, vector and adapter chain used between the operations of the history) and a task waker that outlives the objects.",
 "C02": MAR + " Quiet spells and a worker-thread-long task waker (registrations remembered across objects meet the same waker again).",
 "C03": MAR + " Round drop-vs-readers: the last owner goes away while other threads are inside next_now / next_ref_now / get / read / clone / poll / upgrade; runs under ThreadSanitizer in the quick tier.",
 "C04": "Round drop-vs-readers (see C03), under ThreadSanitizer in the quick tier.",
 "C05": MAR + " Two vectors with transactions open at the same time on one thread (interleaved operations, ended in any order). Bystander objects.",
 "C06": MAR + " (subscribers that are never dropped: a stream that has kept up for more than 2^16 messages). The cross-thread round has a bursty writer and adapters on top of a third of the streams.",
 "C07": MAR + " Two interleaved transactions on two vectors of one element type.",
 "C08": "Small Miri pass (16 shards) in the quick tier; cross-thread round with a bursty writer.",
 "C09": MAR + " (one adapter object per marathon; Tail/Skip also with a regular sliding-window workload).",
 "C10": MAR, "C11": MAR + " (Sort marathons run on through the known finding F6).", "C12": MAR,
 "C13": MAR + " Cross-thread round (bursty writer thread, subscriber threads watching through filter / head / tail on the batched stream).",
 "C14": MAR + " Worker-thread-long task waker in one-waker mode.", "C15": MAR,
 "C16": MAR + " Guard script 6 (subscribers polled under a write guard, woken, never polled again, owners dropped first); ASan over the sequential part in the quick tier.",
 "C17": MAR, "C18": "Indices and lengths at the edges of usize in the enumerated diffs.",
 "C19": MAR + " Storms of 66,000-90,000 clone/drop and upgrade/drop cycles on one observable.",
 "C20": "Element size 8 bytes as a further build variant.",
}

# workloads added after the eleventh round (DESIGN.md 14.12c)
MIG = " Thread-migration histories: every operation runs on one of three worker threads in turn (objects created on one thread, used on another, dropped on a third)."
FEA = " A further build variant enables the library's optional cargo features (tracing - with a subscriber on every second worker thread -, serde)."
ADD11 = {
 "C01": MIG + FEA, "C02": MIG + " Storms of 1,030-2,000 simultaneously registered wakers before an update or the close." + FEA,
 "C03": MIG + FEA, "C04": MIG + " (incl. an async-lock write guard taken on one thread and dropped on another)." + FEA,
 "C05": MIG + " Giant vectors (up to 9,500 items, appends of thousands of values, 40 subscribers) and scale histories (thousands of messages waiting in channels of thousands, transactions of 1,100-5,000 diffs)." + FEA,
 "C06": MIG + " Giant / scale histories as in C05." + FEA, "C07": " Giant / scale histories as in C05." + FEA,
 "C08": MIG + FEA,
 "C09": " Giant vectors with limits in the thousands; scale histories incl. bulk loads of 2,200-6,000 push_backs handled by one poll." + FEA,
 "C10": " Giant / scale histories as in C09." + FEA, "C11": " Giant / scale histories as in C09." + FEA,
 "C12": " Giant vectors under two-stage chains, chains of four to seven stages, scale histories." + FEA,
 "C13": FEA.strip(), "C14": MIG + FEA,
 "C15": " Giant / scale histories as in C09 (batches of thousands of diffs); pops on an empty view do not end a history, the bound is judged after the diffs that follow." + FEA,
 "C16": MIG + FEA, "C17": " Giant / scale histories as in C05 (thousands of middle inserts / removes, traversals over thousands of items)." + FEA,
 "C18": " Targets and payloads of 1,023-70,000 values." + FEA,
 "C19": MIG + " 520-2,000 handles alive at once, released newest-first or in random order, counts compared after every step." + FEA,
 "C20": MIG + FEA,
}

# round twelve (DESIGN.md 14.12d)
RUNS = " Long transaction bodies contain uninterrupted runs of 30-70 calls of one kind; a transaction may also be abandoned by leaking it (mem::forget)."
COL = " Colossal vectors of 66,000-70,000 items (beyond 16-bit indices), half of the index-addressed updates aimed beyond position 2^16."
ADD12 = {"C05": RUNS, "C06": RUNS, "C07": RUNS, "C17": RUNS, "C09": COL + " Twin wakers (one data pointer, two vtables) for two adapters on one limit observable.",
         "C10": COL, "C11": COL, "C15": COL, "C14": " Twin wakers (one data pointer, two vtables, separate wake counts) for two adapters on one limit observable, with dozens of registrations between two limit changes."}

checks = []
for p in props:
    pid = p["id"]
    if pid not in CHECKS:
        continue
    engine, cat, text, tech, ref = CHECKS[pid]
    if pid in ADD:
        text = text + " " + ADD[pid]
    if pid in ADD9:
        text = text + " " + ADD9[pid]
    if pid in ADD10:
        text = text + " " + ADD10[pid].strip()
    if pid in ADD11:
        text = text + " " + ADD11[pid].strip()
    if pid in ADD12:
        text = text + " " + ADD12[pid].strip()
    checks.append({
        "property_id": pid,
        "quick_cmd": f"./check {pid} --tier quick",
        "thorough_cmd": f"./check {pid} --tier thorough",
        "evidence_file": f"/verif/evidence/{pid}.json",
        "replay_cmd_template": f"./check {pid} --replay {{path}}",
        "engine": engine,
        "level_claimed": {"category": cat, "text": text, "design_ref": f"DESIGN.md section {ref}"},
        "level_note": TRUST,
        "technique": tech,
    })

hook_commit = "9122a1f"
m = {
 "version": 1,
 "setup_cmd": "./setup.sh",
 "hooks": {
  "guard": "cargo feature eyeball/__verif (off by default; named after the existing __bench)",
  "enable": "/verif/harness/Cargo.toml enables feature __verif (and async-lock) on its path dependency /repo/eyeball; no RUSTFLAGS needed",
  "baseline_off_cmd": "cd /repo && cargo test --workspace --no-fail-fast --offline",
  "source_commits": [hook_commit],
  "add_only": True,
 },
 "engines": [
  {"name": "vec", "path": "harness/src/engine_vec.rs", "serves_properties": ["C05","C06","C07","C08","C17","C20"], "kind_free_text": "sequential history executor + monitors on the real ObservableVector<Tracked>"},
  {"name": "obs", "path": "harness/src/engine_obs.rs", "serves_properties": ["C01","C02","C03","C16","C19","C20"], "kind_free_text": "sequential Observable/SharedObservable executor for both lock flavours with a version/owner/count model"},
  {"name": "thr", "path": "harness/src/engine_thr.rs", "serves_properties": ["C01","C02","C03","C04","C16"], "kind_free_text": "thread director forcing schedules at the __verif pause points; free-running rounds with injected yields; offline history checkers"},
  {"name": "misc", "path": "harness/src/runners_misc.rs", "serves_properties": ["C18","C20"], "kind_free_text": "exhaustive diff map/apply execution; bulk drop-accounting runs"},
  {"name": "unwind", "path": "harness/src/runners_unwind.rs", "serves_properties": ["C01","C03","C05","C06","C07","C08","C16","C19","C20"], "kind_free_text": "histories in which a user callback or a trait impl of the element type panics inside a library call and is caught; drop accounting plus what the properties say about the calls that follow"},
  {"name": "pairs", "path": "harness/src/runners_pairs.rs", "serves_properties": ["C05","C07","C09","C14"], "kind_free_text": "two objects side by side: two adapters driven by one limit observable (subscriber polled, then cloned); two vectors with interleaved transactions"},
  {"name": "migrate", "path": "harness/src/runners_migrate.rs", "serves_properties": ["C01","C02","C03","C04","C05","C06","C08","C14","C16","C19","C20"], "kind_free_text": "histories executed on three worker threads in turn, one operation at a time (objects migrate between threads), model oracles + process-wide drop table"},
  {"name": "long", "path": "harness/src/runners_long.rs", "serves_properties": ["C01","C02","C03","C05","C06","C07","C09","C10","C11","C12","C13","C14","C15","C16","C17","C19"], "kind_free_text": "marathons: tens of thousands of operations on one long-lived object, judged by the vec / obs / adp engines"},
  {"name": "adp", "path": "harness/src/engine_adp.rs", "serves_properties": ["C09","C10","C11","C12","C13","C14","C15","C20"], "kind_free_text": "adapter/chain executor with transparent taps, event log and per-stage oracles"},
 ],
 "checks": checks,
 "not_applicable": [{"property_id": p["id"], "reason": "check not built yet (work in progress; see DESIGN.md section 10)"} for p in props if p["id"] not in CHECKS],
 "notes": "Family: runtime monitoring and sanitizers. ./check <ID> rebuilds the harness against /repo's working tree on every call. Known findings: /verif/known-findings.txt.",
}
json.dump(m, open(os.path.join(ROOT, "MANIFEST.json"), "w"), indent=1)
print("checks:", [c["property_id"] for c in checks])
