"""Sanitizer passes of ./check: the same harness binary under Miri, ThreadSanitizer and
AddressSanitizer/LeakSanitizer. One sanitizer family per build, each with its own target directory
(harness/target-miri, -tsan, -asan; git-ignored). Verdicts: a sanitizer report or a monitor violation
seen under a sanitizer is a VIOLATION of the property whose check ran the workload; a tool that cannot
run (build failure, unsupported operation, watchdog) is INCONCLUSIVE, never a violation."""
import json, os, re, subprocess, sys, time
from concurrent.futures import ThreadPoolExecutor

ROOT = os.path.dirname(os.path.abspath(__file__))
HARNESS = os.path.join(ROOT, "harness")
TARGET = "x86_64-unknown-linux-gnu"
NCPU = os.cpu_count() or 4

# property -> tier -> list of passes
PLAN = {
    "C20": {
        "quick": [dict(tool="miri", shards=16, san_cases=5, part="all"), dict(tool="asan", scale=1.0, part="all")],
        "thorough": [dict(tool="miri", shards=16, san_cases=60, part="all"), dict(tool="asan", scale=1.0, part="all")],
    },
    "C01": {"quick": [dict(tool="tsan", scale=0.3, part="threads", max_schedules=100)],
            "thorough": [dict(tool="tsan", scale=1.0, part="threads"), dict(tool="miri", shards=8, san_cases=6, part="threads")]},
    "C02": {"quick": [dict(tool="tsan", scale=0.15, part="threads", max_schedules=60)],
            "thorough": [dict(tool="tsan", scale=0.5, part="threads"), dict(tool="miri", shards=16, san_cases=3, part="threads")]},
    "C03": {"quick": [dict(tool="tsan", scale=0.15, part="threads", max_schedules=100)],
            "thorough": [dict(tool="tsan", scale=0.5, part="threads"), dict(tool="miri", shards=16, san_cases=3, part="threads")]},
    "C04": {"quick": [dict(tool="tsan", scale=0.15, part="all", max_schedules=40)],
            "thorough": [dict(tool="tsan", scale=0.5, part="all"), dict(tool="miri", shards=16, san_cases=2, part="all")]},
    # the async subscriber keeps a boxed lock future next to the lock it acquires: drop orders and queued futures
    # (guard scripts, unwinding histories) run under ASan; Miri when thorough
    "C16": {"quick": [dict(tool="tsan", scale=0.3, part="threads"), dict(tool="asan", scale=0.3, part="seq")],
            "thorough": [dict(tool="tsan", scale=0.5, part="threads"), dict(tool="asan", scale=0.5, part="seq"),
                         dict(tool="miri", shards=16, san_cases=3, part="all")]},
    # the unsafe code of the vector streams (reusable box, unreachable_unchecked) is reached by every
    # vector/adapter history: run the stream-end and wake workloads under ASan, and under Miri when thorough
    "C06": {"quick": [dict(tool="tsan", scale=0.3, part="threads")],
            "thorough": [dict(tool="tsan", scale=0.5, part="threads"), dict(tool="asan", scale=0.2, part="all")]},
    "C08": {"quick": [dict(tool="asan", scale=0.5, part="all"), dict(tool="tsan", scale=0.3, part="threads"),
                      dict(tool="miri", shards=16, san_cases=3, part="seq")],
            "thorough": [dict(tool="asan", scale=0.3, part="all"), dict(tool="tsan", scale=0.5, part="threads"),
                         dict(tool="miri", shards=16, san_cases=12, part="all")]},
    "C14": {"quick": [dict(tool="asan", scale=0.3, part="all")],
            "thorough": [dict(tool="asan", scale=0.2, part="all"), dict(tool="miri", shards=16, san_cases=12, part="all")]},
}

SAN_RE = re.compile(r"(error: Undefined Behavior|error: memory leaked|error: deadlock|Data race detected|"
                    r"WARNING: ThreadSanitizer|ERROR: AddressSanitizer|ERROR: LeakSanitizer|"
                    r"error: unsupported operation|error: abnormal termination|error: the evaluated program)")


def env_for(tool):
    e = dict(os.environ, CARGO_NET_OFFLINE="true")
    e.pop("RUSTFLAGS", None)
    # generators that leak on purpose (a transaction abandoned with mem::forget) stay off under leak checkers
    e["VH_NO_LEAKS"] = "1"
    if tool == "miri":
        e["MIRIFLAGS"] = "-Zmiri-tree-borrows -Zmiri-disable-isolation"
        e["CARGO_TARGET_DIR"] = os.path.join(HARNESS, "target-miri")
    elif tool == "tsan":
        e["RUSTFLAGS"] = "-Zsanitizer=thread"
        e["CARGO_TARGET_DIR"] = os.path.join(HARNESS, "target-tsan")
        e["TSAN_OPTIONS"] = "halt_on_error=1 exitcode=66 report_signal_unsafe=0"
    elif tool == "asan":
        e["RUSTFLAGS"] = "-Zsanitizer=address -Cforce-frame-pointers=yes"
        e["CARGO_TARGET_DIR"] = os.path.join(HARNESS, "target-asan")
        e["ASAN_OPTIONS"] = "detect_leaks=1:halt_on_error=1:exitcode=67"
        e["LSAN_OPTIONS"] = "exitcode=68"
    return e


def sh(cmd, env, timeout):
    try:
        p = subprocess.run(cmd, cwd=HARNESS, env=env, stdout=subprocess.PIPE, stderr=subprocess.STDOUT,
                           timeout=timeout, text=True)
        return p.returncode, p.stdout
    except subprocess.TimeoutExpired as ex:
        out = ex.stdout or ""
        if isinstance(out, bytes):
            out = out.decode(errors="replace")
        return None, out


def build(tool):
    env = env_for(tool)
    if tool == "miri":
        cmd = ["cargo", "+nightly", "miri", "run", "--offline", "--quiet", "--bin", "vh", "--", "WARMUP"]
    elif tool == "tsan":
        cmd = ["cargo", "+nightly", "build", "--release", "--offline", "--quiet", "-Zbuild-std", "--target", TARGET, "--bin", "vh"]
    else:
        cmd = ["cargo", "+nightly", "build", "--release", "--offline", "--quiet", "--target", TARGET, "--bin", "vh"]
    return sh(cmd, env, 2400)


def classify(pid, tool, code, out, log_path):
    """-> (verdict, reports) with verdict in ok | violation | inconclusive"""
    reports = SAN_RE.findall(out)
    if "VIOLATION property=" in out:
        return "violation", reports
    hard = [r for r in reports if not r.startswith("error: unsupported") and not r.startswith("error: abnormal")
            and not r.startswith("error: the evaluated program")]
    if hard or code in (66, 67, 68):
        return "violation", reports or [f"exit status {code}"]
    if code == 0 and "SUMMARY " in out:
        return "ok", reports
    return "inconclusive", reports or [f"exit status {code}"]


def summary_of(out):
    for line in out.splitlines():
        if line.startswith("SUMMARY "):
            try:
                return json.loads(line[len("SUMMARY "):])
            except Exception:
                return None
    return None


def run_pass(pid, tier, seed, spec):
    tool = spec["tool"]
    t0 = time.time()
    code, out = build(tool)
    if code != 0:
        print(out[-3000:])
        return dict(tool=tool, verdict="inconclusive", why=f"{tool} build failed"), None
    env = env_for(tool)
    common = ["--tier", tier, "--part", spec.get("part", "all"), "--replay-dir", os.path.join(ROOT, "replays"),
              "--known", os.path.join(ROOT, "known-findings.txt")]
    jobs = []
    if tool == "miri":
        for i in range(spec["shards"]):
            jobs.append(["cargo", "+nightly", "miri", "run", "--offline", "--quiet", "--bin", "vh", "--", pid,
                         "--threads", "1", "--san-cases", str(spec["san_cases"]), "--seed", str(int(seed) * 1000 + i),
                         "--t-block-ms", "200"] + common)
        workers = min(NCPU, spec["shards"])
        timeout = 3600
    else:
        exe = os.path.join(env["CARGO_TARGET_DIR"], TARGET, "release", "vh")
        extra = ["--max-schedules", str(spec["max_schedules"])] if "max_schedules" in spec else []
        jobs.append([exe, pid, "--seed", seed, "--scale", str(spec["scale"]), "--t-block-ms", "30"] + extra + common)
        workers = 1
        timeout = 5400
    results = []
    with ThreadPoolExecutor(max_workers=workers) as ex:
        for job, (code, out) in zip(jobs, ex.map(lambda j: sh(j, env, timeout), jobs)):
            results.append((job, code, out))
    agg = dict(tool=tool, processes=len(jobs), evaluations=0, distinct_nontrivial=0, reports=[], events={},
               verdict="ok", wall_s=0.0)
    worst = None
    for k, (job, code, out) in enumerate(results):
        log_path = os.path.join(ROOT, "replays", f"{pid}-{tool}-{os.getpid()}-{k}.log")
        verdict, reports = ("inconclusive", ["watchdog"]) if code is None else classify(pid, tool, code, out, log_path)
        s = summary_of(out)
        if s:
            agg["evaluations"] += s.get("evaluations", 0)
            agg["distinct_nontrivial"] += s.get("distinct_nontrivial", 0)
            for key, val in s.get("events", {}).items():
                agg["events"][key] = agg["events"].get(key, 0) + val
        if verdict != "ok":
            os.makedirs(os.path.dirname(log_path), exist_ok=True)
            with open(log_path, "w") as f:
                f.write("$ " + " ".join(job) + "\n" + out)
            agg["reports"].append(dict(process=k, verdict=verdict, reports=sorted(set(reports))[:5], log=log_path))
            if verdict == "violation" or worst is None:
                worst = (verdict, log_path, out)
                agg["verdict"] = verdict if agg["verdict"] != "violation" else "violation"
    agg["wall_s"] = round(time.time() - t0, 2)
    # keep the event list short in the evidence
    keep = ["schedules_executed", "schedules_distinct", "pause_points_passed_in_free_mode", "messages_published",
            "diffs_out_of_top_stage", "observable_notifying_updates", "streams_ended", "streams_dropped_on_mid_batch",
            "w1-register_recorded_events", "w2-append-list_recorded_events", "w3-guards_recorded_events",
            "w1-register-async_recorded_events", "free_polls_pending", "observable_into_shared"]
    agg["events"] = {k: v for k, v in agg["events"].items() if k in keep}
    return agg, worst


def run(pid, tier, seed, ev_path):
    passes = PLAN.get(pid, {}).get(tier, [])
    if not passes:
        return 0
    os.makedirs(os.path.join(ROOT, "replays"), exist_ok=True)
    done = []
    rc = 0
    for spec in passes:
        agg, worst = run_pass(pid, tier, seed, spec)
        done.append(agg)
        print(f"sanitizer pass {agg['tool']}: verdict={agg['verdict']} processes={agg.get('processes')} "
              f"evaluations={agg.get('evaluations')} wall_s={agg.get('wall_s')}")
        if agg["verdict"] == "violation":
            verdict, log_path, out = worst
            for line in out.splitlines():
                if line.startswith("VIOLATION") or line.strip().startswith("what:") or SAN_RE.search(line):
                    print("  " + line[:400])
            if "VIOLATION property=" not in out:
                print(f"VIOLATION property={pid} replay={log_path}")
            else:
                # re-print the monitor's own line so that it is the last thing the caller sees
                for line in out.splitlines():
                    if line.startswith("VIOLATION property="):
                        print(line)
                        break
            rc = 1
            break
        if agg["verdict"] == "inconclusive":
            print(f"INCONCLUSIVE: property={pid} sanitizer pass {agg['tool']}: {agg.get('why') or agg['reports'][:1]}")
            rc = 2
            break
    try:
        ev = json.load(open(ev_path))
        ev["coverage"]["sanitizer_passes"] = done
        if rc == 1:
            ev["violations"] = ev.get("violations", 0) + 1
        ev.setdefault("assumptions", []).append("Miri / ThreadSanitizer / AddressSanitizer report what they report only on the paths the workload reached")
        json.dump(ev, open(ev_path, "w"), indent=1)
    except Exception as ex:
        print(f"INCONCLUSIVE: property={pid} cannot merge sanitizer results into the evidence: {ex!r}")
        return 2
    return rc
