//! Real threads: a director that forces schedules at the `__verif` pause points (plus the clone of the
//! harness waker), and free-running rounds with hook-injected yields whose recorded histories are
//! checked afterwards (C02 threads, C03 threads, C04, C16 stress).

use std::{
    cell::RefCell,
    collections::HashSet,
    sync::{
        atomic::{AtomicBool, AtomicU64, Ordering as AO},
        Arc, Condvar, Mutex, Once,
    },
    task::{Context, Poll, RawWaker, RawWakerVTable, Waker},
    time::{Duration, Instant},
};

use crate::common::*;

// ---------------------------------------------------------------------------------------------
// pause points

#[derive(Clone)]
enum Mode {
    Directed(Arc<Director>, usize),
    /// free-running: inject yields/spins with this probability (per mille)
    Free(u64),
}

thread_local! {
    static MODE: RefCell<Option<Mode>> = const { RefCell::new(None) };
    static FREE_RNG: RefCell<Rng> = RefCell::new(Rng::new(1));
}

static HOOK: Once = Once::new();
pub static POINTS_HIT: AtomicU64 = AtomicU64::new(0);
/// sanitizer / Miri mode: small rounds
pub static SMALL: AtomicBool = AtomicBool::new(false);
pub static T_BLOCK_MS: AtomicU64 = AtomicU64::new(12);
pub fn t_block() -> Duration {
    Duration::from_millis(T_BLOCK_MS.load(AO::Relaxed))
}
pub static POLL_NEXT_TO_WRITER: AtomicU64 = AtomicU64::new(0);

pub fn small() -> bool {
    SMALL.load(AO::Relaxed)
}

pub fn install_hook() {
    HOOK.call_once(|| {
        eyeball::verif_hooks::set_hook(Some(Arc::new(|name| pause(name))));
    });
}

pub fn pause(name: &'static str) {
    let mode = MODE.with(|m| m.borrow().clone());
    match mode {
        None => {}
        Some(Mode::Directed(d, r)) => d.arrive(r, name),
        Some(Mode::Free(pm)) => {
            POINTS_HIT.fetch_add(1, AO::Relaxed);
            let (x, y) = FREE_RNG.with(|r| {
                let mut r = r.borrow_mut();
                (r.below(1000) as u64, r.below(64))
            });
            if x < pm {
                if y < 40 {
                    std::thread::yield_now();
                } else {
                    // 1-50 us spin
                    let t = Instant::now();
                    let d = Duration::from_nanos(1000 + (y as u64 - 40) * 2000);
                    while t.elapsed() < d {
                        std::hint::spin_loop();
                    }
                }
            }
        }
    }
}

pub fn set_free_mode(seed: u64, per_mille: u64) {
    MODE.with(|m| *m.borrow_mut() = Some(Mode::Free(per_mille)));
    FREE_RNG.with(|r| *r.borrow_mut() = Rng::new(seed));
}

pub fn clear_mode() {
    MODE.with(|m| *m.borrow_mut() = None);
}

// --- a waker whose clone() is a pause point ---------------------------------------------------

unsafe fn pw_clone(p: *const ()) -> RawWaker {
    pause("waker:clone");
    Arc::increment_strong_count(p as *const FlagWaker);
    RawWaker::new(p, &PW_VTABLE)
}
unsafe fn pw_wake(p: *const ()) {
    let a = Arc::from_raw(p as *const FlagWaker);
    std::task::Wake::wake(a);
}
unsafe fn pw_wake_by_ref(p: *const ()) {
    let a = std::mem::ManuallyDrop::new(Arc::from_raw(p as *const FlagWaker));
    std::task::Wake::wake_by_ref(&a);
}
unsafe fn pw_drop(p: *const ()) {
    drop(Arc::from_raw(p as *const FlagWaker));
}
static PW_VTABLE: RawWakerVTable = RawWakerVTable::new(pw_clone, pw_wake, pw_wake_by_ref, pw_drop);

/// fresh flag waker; `unpark`: wake also unparks the calling thread
pub fn pause_waker(unpark: bool) -> (Arc<FlagWaker>, Waker) {
    let f = Arc::new(FlagWaker {
        wakes: AtomicU64::new(0),
        thread: if unpark { Some(std::thread::current()) } else { None },
    });
    let raw = RawWaker::new(Arc::into_raw(f.clone()) as *const (), &PW_VTABLE);
    (f, unsafe { Waker::from_raw(raw) })
}

// ---------------------------------------------------------------------------------------------
// director

#[derive(Clone, Copy, PartialEq, Debug)]
enum RS {
    Running,
    Parked(&'static str),
    Done,
}

struct DSt {
    roles: Vec<RS>,
    released: Vec<bool>,
    blocked: Vec<bool>,
    excl_violation: Option<String>,
}

pub struct Director {
    st: Mutex<DSt>,
    cv: Condvar,
}

fn holds_read(p: &str) -> bool {
    // not "waker:clone": with the async-lock flavour tokio clones the waker of a task that is *waiting*
    // for the lock, which holds nothing
    matches!(p, "poll:enter" | "poll:locked" | "poll:registered")
}

impl Director {
    fn new(n: usize) -> Arc<Director> {
        Arc::new(Director {
            st: Mutex::new(DSt { roles: vec![RS::Running; n], released: vec![false; n], blocked: vec![false; n], excl_violation: None }),
            cv: Condvar::new(),
        })
    }

    fn arrive(&self, r: usize, name: &'static str) {
        let mut st = self.st.lock().unwrap();
        st.roles[r] = RS::Parked(name);
        st.blocked[r] = false;
        // C04: a role inside poll_update holds the value read lock, a role at update:locked the value
        // write lock - they can never be parked there at the same time
        let readers: Vec<usize> =
            (0..st.roles.len()).filter(|&i| matches!(st.roles[i], RS::Parked(p) if holds_read(p))).collect();
        let writers: Vec<usize> =
            (0..st.roles.len()).filter(|&i| matches!(st.roles[i], RS::Parked("update:locked"))).collect();
        // (a poller parked inside poll_update next to a writer parked inside an update is only *counted*: whether
        // a poll holds the value lock is a matter of the implementation, C04 speaks about reads and writes of the
        // value and about guards)
        if !readers.is_empty() && !writers.is_empty() {
            POLL_NEXT_TO_WRITER.fetch_add(1, AO::Relaxed);
        }
        if writers.len() > 1 && st.excl_violation.is_none() {
            st.excl_violation = Some(format!("roles {writers:?} are inside an update at the same time"));
        }
        self.cv.notify_all();
        while !st.released[r] {
            st = self.cv.wait(st).unwrap();
        }
        st.released[r] = false;
        st.roles[r] = RS::Running;
    }

    fn finish(&self, r: usize) {
        let mut st = self.st.lock().unwrap();
        st.roles[r] = RS::Done;
        st.blocked[r] = false;
        self.cv.notify_all();
    }
}

/// set when a future of the async-lock flavour was neither ready nor woken within the wall-clock bound
pub static ASYNC_STUCK: AtomicBool = AtomicBool::new(false);

pub struct SchedRun {
    /// (chosen index, number of options) per step
    pub choices: Vec<(usize, usize)>,
    pub trace: Vec<String>,
    pub diverged: bool,
    pub stuck: bool,
    pub excl_violation: Option<String>,
}

pub type RoleFn = Box<dyn FnOnce() + Send>;

/// Run the roles under the director following `prefix` (then always the first parked role).
pub fn run_schedule(roles: Vec<RoleFn>, prefix: &[usize], t_block: Duration) -> SchedRun {
    install_hook();
    let n = roles.len();
    let d = Director::new(n);
    let mut handles = vec![];
    for (r, f) in roles.into_iter().enumerate() {
        let d2 = d.clone();
        handles.push(std::thread::spawn(move || {
            MODE.with(|m| *m.borrow_mut() = Some(Mode::Directed(d2.clone(), r)));
            d2.arrive(r, "start");
            let res = std::panic::catch_unwind(std::panic::AssertUnwindSafe(f));
            MODE.with(|m| *m.borrow_mut() = None);
            d2.finish(r);
            res.is_ok()
        }));
    }
    let mut run = SchedRun { choices: vec![], trace: vec![], diverged: false, stuck: false, excl_violation: None };
    let mut step = 0usize;
    loop {
        // wait until every role is parked, done or presumed blocked
        let mut st = d.st.lock().unwrap();
        let deadline = Instant::now() + t_block;
        loop {
            let settled = (0..n).all(|i| st.roles[i] != RS::Running || st.blocked[i]);
            if settled {
                break;
            }
            let now = Instant::now();
            if now >= deadline {
                for i in 0..n {
                    if st.roles[i] == RS::Running && !st.blocked[i] {
                        st.blocked[i] = true;
                    }
                }
                break;
            }
            let (g, _) = d.cv.wait_timeout(st, deadline - now).unwrap();
            st = g;
        }
        let parked: Vec<usize> = (0..n).filter(|&i| matches!(st.roles[i], RS::Parked(_))).collect();
        if parked.is_empty() {
            if (0..n).all(|i| st.roles[i] == RS::Done) {
                break;
            }
            // somebody is running/blocked and nobody can be released: give it time, then give up
            let t0 = Instant::now();
            let mut progressed = false;
            while t0.elapsed() < Duration::from_secs(30) {
                let (g, _) = d.cv.wait_timeout(st, Duration::from_millis(50)).unwrap();
                st = g;
                if (0..n).any(|i| matches!(st.roles[i], RS::Parked(_))) || (0..n).all(|i| st.roles[i] == RS::Done) {
                    progressed = true;
                    break;
                }
            }
            if !progressed {
                run.stuck = true;
                break;
            }
            continue;
        }
        let nopt = parked.len();
        let mut c = if step < prefix.len() { prefix[step] } else { 0 };
        if c >= 1000 {
            // sampled schedule: any value is a valid choice
            c = (c - 1000) % nopt;
        }
        if c >= nopt {
            run.diverged = true;
            c = nopt - 1;
        }
        let r = parked[c];
        let RS::Parked(p) = st.roles[r] else { unreachable!() };
        let blocked: Vec<String> = (0..n).filter(|&i| st.blocked[i] && st.roles[i] == RS::Running).map(|i| format!("r{i}")).collect();
        run.trace.push(if blocked.is_empty() { format!("r{r}:{p}") } else { format!("r{r}:{p}[blocked:{}]", blocked.join(",")) });
        run.choices.push((c, nopt));
        st.released[r] = true;
        st.roles[r] = RS::Running;
        // releasing somebody may unblock the others
        for b in st.blocked.iter_mut() {
            *b = false;
        }
        d.cv.notify_all();
        drop(st);
        step += 1;
        if step > 400 {
            run.stuck = true;
            break;
        }
    }
    if run.stuck {
        // cannot join safely; release everything and detach
        let mut st = d.st.lock().unwrap();
        for x in st.released.iter_mut() {
            *x = true;
        }
        d.cv.notify_all();
        drop(st);
        // keep releasing whoever parks
        let t0 = Instant::now();
        while t0.elapsed() < Duration::from_secs(2) {
            let mut st = d.st.lock().unwrap();
            if (0..n).all(|i| st.roles[i] == RS::Done) {
                break;
            }
            for x in st.released.iter_mut() {
                *x = true;
            }
            d.cv.notify_all();
            drop(st);
            std::thread::sleep(Duration::from_millis(5));
        }
    } else {
        for h in handles {
            let _ = h.join();
        }
    }
    run.excl_violation = d.st.lock().unwrap().excl_violation.clone();
    if ASYNC_STUCK.load(AO::SeqCst) {
        run.stuck = true;
    }
    run
}

/// Stateless DFS over "which parked role runs next": calls `scenario(prefix)` repeatedly.
/// `scenario` returns the executed run and its verdict.
pub fn explore<F>(max_schedules: usize, mut scenario: F) -> ExploreOut
where
    F: FnMut(&[usize]) -> (SchedRun, Result<(), (&'static str, String)>),
{
    let mut out = ExploreOut::default();
    let mut prefix: Vec<usize> = vec![];
    let mut sampling = false;
    let mut sample_no = 0u64;
    loop {
        let (run, verdict) = scenario(&prefix);
        out.executed += 1;
        if run.stuck {
            out.stuck += 1;
        }
        if run.diverged {
            out.diverged += 1;
        }
        if run.trace.iter().any(|t| t.contains("[blocked:")) {
            out.with_blocked_edge += 1;
        }
        out.distinct.insert(hash_of(&run.trace));
        if out.sample.is_empty() {
            out.sample = run.trace.clone();
        }
        if let (Some(v), false) = (&run.excl_violation, run.stuck) {
            if out.violation.is_none() {
                out.violation = Some(("C04", v.clone(), run.trace.clone(), prefix.clone()));
            }
        }
        // a run that got stuck (a wall-clock rule fired) proves nothing: its verdict is discarded
        if let (Err((prop, what)), false) = (verdict, run.stuck) {
            if out.violation.is_none() {
                out.violation = Some((prop, what, run.trace.clone(), prefix.clone()));
            }
        }
        if out.violation.is_some() || out.executed >= max_schedules + max_schedules / 2 {
            out.complete = false;
            break;
        }
        if !sampling && out.executed >= max_schedules {
            // the enumeration did not finish within its budget: it has varied the *end* of the schedule so
            // far; spend half a budget more on sampled schedules, which also vary who moves first
            sampling = true;
        }
        if sampling {
            sample_no += 1;
            let mut x = crate::common::mix(0x5eed, sample_no);
            prefix = (0..64)
                .map(|_| {
                    x = crate::common::mix(x, 1);
                    1000 + (x % 7919) as usize
                })
                .collect();
            continue;
        }
        // next prefix
        let mut next: Option<Vec<usize>> = None;
        for i in (0..run.choices.len()).rev() {
            let (c, n) = run.choices[i];
            if c + 1 < n {
                let mut p: Vec<usize> = run.choices[..i].iter().map(|x| x.0).collect();
                p.push(c + 1);
                next = Some(p);
                break;
            }
        }
        match next {
            Some(p) => prefix = p,
            None => {
                out.complete = true;
                break;
            }
        }
    }
    out
}

#[derive(Default)]
pub struct ExploreOut {
    pub executed: usize,
    pub distinct: HashSet<u64>,
    pub stuck: usize,
    pub diverged: usize,
    pub with_blocked_edge: usize,
    pub complete: bool,
    pub sample: Vec<String>,
    /// (property, what, trace, prefix)
    pub violation: Option<(&'static str, String, Vec<String>, Vec<usize>)>,
}

// ---------------------------------------------------------------------------------------------
// helpers for roles

pub type Slot<T> = Arc<Mutex<Option<T>>>;
pub fn slot<T>() -> Slot<T> {
    Arc::new(Mutex::new(None))
}
pub fn slot_with<T>(v: T) -> Slot<T> {
    Arc::new(Mutex::new(Some(v)))
}

/// poll a stream once with a fresh pause-waker
pub fn poll_stream_once<S: futures_core::Stream + Unpin>(s: &mut S) -> (Poll<Option<S::Item>>, Arc<FlagWaker>) {
    let (flag, w) = pause_waker(false);
    let mut cx = Context::from_waker(&w);
    (std::pin::Pin::new(s).poll_next(&mut cx), flag)
}

/// global logical clock for recorded histories
pub struct Clock(pub AtomicU64);
impl Clock {
    pub fn tick(&self) -> u64 {
        self.0.fetch_add(1, AO::SeqCst)
    }
}

pub struct Quiesce(pub AtomicBool);
impl Quiesce {
    pub fn set(&self) {
        self.0.store(true, AO::SeqCst);
    }
    pub fn get(&self) -> bool {
        self.0.load(AO::SeqCst)
    }
}
