#!/bin/bash
# MANIFEST.setup_cmd: warm-build the harness offline (release). Everything else is built on demand by ./check.
set -e
cd "$(dirname "$0")/harness"
export CARGO_NET_OFFLINE=true
cargo build --release --offline
echo "setup ok"
