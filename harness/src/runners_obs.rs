//! Property runners on the observable engine: C01, C02 (operation granularity), C03 (sequential),
//! C16 (async flavour differential + guard scripts), C19.

use std::{
    future::Future,
    pin::pin,
    task::{Context, Poll},
};

use eyeball::{ObservableWriteGuard, SharedObservable};
use futures_core::Stream;
use serde_json::json;

use crate::{common::*, engine_obs::*, engine_vec::Div, Params};

const A: Val = (0, 0);
const B: Val = (0, 1); // same hash as A, not equal
const C: Val = (1, 0);

#[derive(Clone, Copy, Debug)]
struct Shape {
    unique: bool,
    uniq_alive: bool,
    owners: usize,
    weaks: usize,
    subs: usize,
}

impl Shape {
    fn new(shared: bool) -> Shape {
        Shape { unique: !shared, uniq_alive: !shared, owners: shared as usize, weaks: 0, subs: 0 }
    }
    fn has_owner(&self) -> bool {
        if self.unique {
            self.uniq_alive
        } else {
            self.owners > 0
        }
    }
    fn apply(&mut self, op: &OOp) {
        match op {
            OOp::Clone(_) if !self.unique && self.owners > 0 && self.owners < 4 => self.owners += 1,
            OOp::CloneFromOther(_) if !self.unique && self.owners > 0 => self.owners -= 1,
            OOp::HandlesUnderGuard(_, _, k) if !self.unique && self.owners > 1 && k % 3 == 1 => self.owners -= 1,
            OOp::DropOwner(_) | OOp::DropOwnerUnwinding(_) => {
                if self.unique {
                    self.uniq_alive = false;
                } else if self.owners > 0 {
                    self.owners -= 1;
                }
            }
            OOp::Downgrade(_) if !self.unique && self.owners > 0 && self.weaks < 3 => self.weaks += 1,
            OOp::Upgrade(_) if self.weaks > 0 && self.owners > 0 && self.owners < 4 => self.owners += 1,
            OOp::CloneWeak(_) if self.weaks > 0 && self.weaks < 3 => self.weaks += 1,
            OOp::DropWeak(_) if self.weaks > 0 => self.weaks -= 1,
            OOp::IntoShared if self.unique && self.uniq_alive => {
                self.unique = false;
                self.uniq_alive = false;
                self.owners = 1;
            }
            OOp::Subscribe(_) | OOp::SubscribeReset(_) if self.has_owner() && self.subs < 5 => self.subs += 1,
            OOp::SClone(_) | OOp::SCloneReset(_) if self.subs > 0 && self.subs < 5 => self.subs += 1,
            OOp::SDrop(_) | OOp::SubCloneFromOther(_) if self.subs > 0 => self.subs -= 1,
            _ => {}
        }
    }
}

#[derive(Clone, Copy, PartialEq)]
enum Focus {
    Values,
    Wakes,
    Handles,
}

fn alphabet(focus: Focus, sh: &Shape, max_subs: usize) -> Vec<OOp> {
    let mut a = vec![];
    let shared = !sh.unique;
    match focus {
        Focus::Values => {
            if sh.has_owner() {
                a.extend([
                    OOp::Set(0, A),
                    OOp::Set(0, B),
                    OOp::SetIfNotEq(0, A),
                    OOp::SetIfNotEq(0, B),
                    OOp::SetIfHashNotEq(0, B),
                    OOp::SetIfHashNotEq(0, C),
                    OOp::Take(0),
                    OOp::Update(0, C),
                    OOp::UpdateIf(0, B, true, false),
                    OOp::UpdateIf(0, C, true, true),
                    OOp::UpdateIf(0, A, false, true),
                    OOp::Get(0),
                ]);
                if shared {
                    a.push(OOp::Guard(0, vec![GOp::Set(B), GOp::TryOthers]));
                    a.push(OOp::Guard(0, vec![GOp::SetIfNotEq(A), GOp::UpdateIf(C, true, false), GOp::SetIfHashNotEq(A)]));
                    a.push(OOp::ReadGuard(0));
                    a.push(OOp::TryGuards(0, C));
                }
                if sh.subs < max_subs {
                    a.push(OOp::Subscribe(0));
                    a.push(OOp::SubscribeReset(0));
                }
            }
            for s in 0..sh.subs.min(2) {
                a.extend([OOp::Poll(s), OOp::NextNow(s), OOp::SGet(s), OOp::Reset(s), OOp::SDrop(s)]);
                if sh.subs < max_subs {
                    a.push(OOp::SClone(s));
                }
            }
            if sh.subs > 0 {
                a.extend([OOp::PollNext(0), OOp::PollNextRef(0), OOp::NextRefNow(0), OOp::SRead(0)]);
                if sh.subs < max_subs {
                    a.push(OOp::SCloneReset(0));
                }
            }
        }
        Focus::Wakes => {
            for s in 0..sh.subs.min(3) {
                a.push(OOp::Poll(s));
            }
            if sh.subs > 1 {
                a.push(OOp::PollNext(1));
            }
            if sh.has_owner() {
                a.extend([OOp::Set(0, B), OOp::SetIfNotEq(0, A), OOp::UpdateIf(0, C, true, false), OOp::Update(0, A)]);
                if sh.subs < max_subs {
                    a.push(OOp::Subscribe(0));
                }
                a.push(OOp::DropOwner(0));
                if shared {
                    if sh.owners < 3 {
                        a.push(OOp::Clone(0));
                    }
                    if sh.owners > 1 {
                        a.push(OOp::DropOwner(1));
                    }
                } else {
                    a.push(OOp::IntoShared);
                }
            }
            if sh.subs > 0 {
                a.push(OOp::SDrop(0));
                a.push(OOp::Reset(0));
            }
        }
        Focus::Handles => {
            if sh.has_owner() {
                a.extend([OOp::Set(0, B), OOp::DropOwner(0), OOp::DropOwnerUnwinding(0)]);
                if sh.subs < max_subs {
                    a.push(OOp::Subscribe(0));
                }
                if shared {
                    a.extend([OOp::Clone(0), OOp::Downgrade(0)]);
                    a.push(OOp::CloneFromOther(1));
                    a.push(OOp::HandlesUnderGuard(0, true, 1));
                    a.push(OOp::HandlesUnderGuard(0, false, 2));
                    if sh.owners > 1 {
                        a.push(OOp::DropOwner(1));
                    }
                } else {
                    a.push(OOp::IntoShared);
                }
            }
            if sh.weaks > 0 {
                a.extend([OOp::Upgrade(0), OOp::CloneWeak(0), OOp::DropWeak(0)]);
            }
            if sh.subs > 0 {
                a.extend([OOp::Poll(0), OOp::SGet(0), OOp::SDrop(0), OOp::Reset(0), OOp::SubCloneFromOther(0)]);
                if sh.subs < max_subs {
                    a.extend([OOp::SClone(0), OOp::SCloneReset(0)]);
                }
                if sh.subs > 1 {
                    a.push(OOp::Poll(1));
                }
            }
        }
    }
    a
}

fn dfs(sh: Shape, prefix: &mut Vec<OOp>, depth: usize, focus: Focus, max_subs: usize, visit: &mut dyn FnMut(&[OOp])) {
    visit(prefix);
    if depth == 0 {
        return;
    }
    for op in alphabet(focus, &sh, max_subs) {
        let mut s2 = sh;
        s2.apply(&op);
        prefix.push(op);
        dfs(s2, prefix, depth - 1, focus, max_subs, visit);
        prefix.pop();
    }
}

fn gen_val(rng: &mut Rng) -> Val {
    (rng.below(2) as u8, rng.below(2) as u32)
}

pub fn gen_obs_history(rng: &mut Rng, shared: bool, min: usize, max: usize) -> ObsHistory {
    let n = rng.range(min, max);
    let mut ops = vec![];
    let heavy_poll = rng.chance(1, 2);
    for _ in 0..n {
        let h = rng.below(4);
        let s = rng.below(5);
        let v = gen_val(rng);
        let r = rng.below(100);
        let op = if r < 30 {
            match rng.below(8) {
                0 => OOp::Set(h, v),
                1 => OOp::SetIfNotEq(h, v),
                2 => OOp::SetIfHashNotEq(h, v),
                3 => OOp::Take(h),
                4 => OOp::Update(h, v),
                5 => OOp::UpdateIf(h, v, rng.chance(1, 2), rng.chance(1, 2)),
                6 => {
                    let k = rng.range(1, 3);
                    OOp::Guard(
                        h,
                        (0..k)
                            .map(|_| match rng.below(7) {
                                0 => GOp::Set(gen_val(rng)),
                                1 => GOp::SetIfNotEq(gen_val(rng)),
                                2 => GOp::SetIfHashNotEq(gen_val(rng)),
                                3 => GOp::Take,
                                4 => GOp::Update(gen_val(rng)),
                                5 => GOp::UpdateIf(gen_val(rng), rng.chance(1, 2), rng.chance(1, 2)),
                                _ => GOp::TryOthers,
                            })
                            .collect(),
                    )
                }
                _ => OOp::ReadGuard(h),
            }
        } else if r < (if heavy_poll { 65 } else { 50 }) {
            match rng.below(3) {
                0 => OOp::Poll(s),
                1 => OOp::PollNext(s),
                _ => OOp::PollNextRef(s),
            }
        } else if r < 75 {
            match rng.below(8) {
                0 => OOp::NextNow(s),
                1 => OOp::NextRefNow(s),
                2 => OOp::SGet(s),
                3 => OOp::SRead(s),
                4 => OOp::Reset(s),
                5 => OOp::Get(h),
                6 => OOp::Read(h),
                _ => OOp::TryGuards(h, v),
            }
        } else if r < 88 {
            match rng.below(6) {
                0 | 1 => OOp::Subscribe(h),
                2 => OOp::SubscribeReset(h),
                3 => OOp::SClone(s),
                4 => OOp::SCloneReset(s),
                _ => {
                    if rng.chance(1, 3) {
                        OOp::SubCloneFromOther(s)
                    } else {
                        OOp::SDrop(s)
                    }
                }
            }
        } else {
            match rng.below(9) {
                0 | 1 => OOp::Clone(h),
                2 => {
                    if rng.chance(1, 4) {
                        OOp::DropOwnerUnwinding(h)
                    } else {
                        OOp::DropOwner(h)
                    }
                }
                3 => OOp::Downgrade(h),
                4 => OOp::Upgrade(h),
                5 => OOp::CloneWeak(h),
                6 => OOp::DropWeak(h),
                7 => OOp::IntoShared,
                _ => match rng.below(6) {
                    0 | 1 => OOp::CloneFromOther(h),
                    2 | 3 => OOp::HandlesUnderGuard(h, rng.chance(2, 3), rng.below(3) as u8),
                    _ => OOp::Clone(h),
                },
            }
        };
        ops.push(op);
    }
    let same_waker = rng.chance(1, 4);
    ObsHistory { shared, init: gen_val(rng), ops, many: 0, same_waker }
}

fn record(ev: &mut Ev, f: &OFacts) {
    ev.add("polls_ready", f.ready);
    ev.add("polls_pending", f.pending);
    ev.add("polls_none", f.none);
    ev.add("conditional_setters_not_storing", f.cond_not_stored);
    ev.add("conditional_setters_storing", f.cond_stored);
    ev.add("notifying_updates", f.notifying);
    ev.add("mutations_without_notification", f.silent_mutation);
    ev.add("wake_obligations_checked", f.wake_obligations);
    ev.add("closes", f.closes);
    ev.add("upgrades_some", f.upgrades_ok);
    ev.add("upgrades_none", f.upgrades_none);
    ev.add("into_shared", f.into_shared);
    ev.add("count_checks", f.count_checks);
    ev.add("subscribers_created", f.subs_created);
    ev.add("polls_after_end", f.polls_after_end);
    ev.add("write_guard_operations", f.guard_ops);
    if f.max_pending_at_once >= 2 {
        ev.count("histories_with_2_or_more_pending_subscribers_at_once");
    }
    for s in &f.states {
        ev.state(*s);
    }
}

/// run on one flavour, classify
pub fn judge_obs<F: Fl>(
    prop: &str,
    h: &ObsHistory,
    case: &serde_json::Value,
    out: &mut Outcome,
    nontrivial: &dyn Fn(&OFacts) -> bool,
) -> Option<OFacts> {
    out.ev.evaluations += 1;
    let r = std::panic::catch_unwind(std::panic::AssertUnwindSafe(|| run_obs_history::<F>(h)));
    let r = match r {
        Ok(r) => r,
        Err(_) => {
            // the harness's own "a future of the async-lock flavour did not complete" is a C16 matter; a panic
            // raised inside the library or its dependencies belongs to whatever property's history provoked it
            let msg = last_panic();
            let own = msg.contains("async-lock flavour:");
            Err(Div { prop: if F::ASYNC && own { "C16" } else { "PANIC" }, what: format!("unexpected panic: {msg}") })
        }
    };
    match r {
        Ok(f) => {
            record(&mut out.ev, &f);
            if nontrivial(&f) {
                out.ev.nontrivial(hash_of(&(F::ASYNC, h)));
                if out.ev.samples.len() < 3 {
                    out.ev.sample(json!({"flavour": if F::ASYNC {"async-lock"} else {"sync"}, "history": h.show()}));
                }
            }
            Some(f)
        }
        Err(d) => {
            if d.prop.split('|').any(|x| x == prop) || d.prop == "PANIC" {
                let mut hist = h.show();
                hist.insert(0, format!("flavour: {}", if F::ASYNC { "async-lock" } else { "sync" }));
                out.violations.push(Violation { property: prop.to_string(), case: case.clone(), history: hist, what: d.what });
            } else {
                out.ev.foreign += 1;
                out.ev.count(&format!("foreign_divergence_{}", d.prop));
            }
            None
        }
    }
}

#[derive(Clone, Copy, PartialEq)]
enum Flv {
    Sync,
    Async,
    Both,
}

fn judge_flavours(
    prop: &str,
    flv: Flv,
    h: &ObsHistory,
    case: &serde_json::Value,
    out: &mut Outcome,
    nt: &dyn Fn(&OFacts) -> bool,
) {
    let fs = if flv != Flv::Async { judge_obs::<SyncFl>(prop, h, case, out, nt) } else { None };
    let fa = if flv != Flv::Sync { judge_obs::<AsyncFl>(prop, h, case, out, nt) } else { None };
    if let (Some(fs), Some(fa)) = (fs, fa) {
        // differential: the same calls give the same results on both flavours
        out.ev.count("flavour_differentials");
        if fs.trace != fa.trace && prop == "C16" {
            let k = fs.trace.iter().zip(&fa.trace).position(|(a, b)| a != b).unwrap_or(0);
            out.violations.push(Violation {
                property: prop.to_string(),
                case: case.clone(),
                history: h.show(),
                what: format!("step {k}: sync flavour gave {:?}, async-lock flavour gave {:?}", fs.trace.get(k), fa.trace.get(k)),
            });
        }
    }
}

fn exh(
    prop: &str,
    p: &Params,
    gen_name: &str,
    flv: Flv,
    focus: Focus,
    depth: usize,
    max_subs: usize,
    nt: &(dyn Fn(&OFacts) -> bool + Sync),
) -> Outcome {
    // roots: kind x first op
    let mut roots: Vec<(bool, Option<OOp>)> = vec![];
    for shared in [false, true] {
        roots.push((shared, None));
        for op in alphabet(focus, &Shape::new(shared), max_subs) {
            roots.push((shared, Some(op)));
        }
    }
    let mut out = p.cases(gen_name, roots.len() as u64, |i, out| {
        let (shared, first) = &roots[i as usize];
        let mut sh = Shape::new(*shared);
        let mut prefix = vec![];
        let d = match first {
            None => 0,
            Some(op) => {
                sh.apply(op);
                prefix.push(op.clone());
                depth - 1
            }
        };
        let mut leaf = 0u64;
        dfs(sh, &mut prefix, d, focus, max_subs, &mut |ops| {
            let h = ObsHistory { shared: *shared, init: A, ops: ops.to_vec(), many: 0, same_waker: leaf % 3 == 1 };
            let case = json!({"gen": gen_name, "case": i, "leaf": leaf});
            judge_flavours(prop, flv, &h, &case, out, nt);
            leaf += 1;
        });
    });
    out.ev.exhaustive_scopes.push(format!(
        "{gen_name}: every call sequence of length <= {depth} over the state-dependent alphabet ({} operations initially, up to ~35), unique Observable and SharedObservable, <= {max_subs} subscribers, flavours: {}",
        alphabet(focus, &Shape::new(true), max_subs).len(),
        match flv {
            Flv::Sync => "sync",
            Flv::Async => "async-lock",
            Flv::Both => "sync and async-lock (results compared)",
        }
    ));
    out
}

fn rand(
    prop: &str,
    p: &Params,
    gen_name: &str,
    flv: Flv,
    n: u64,
    min: usize,
    max: usize,
    nt: &(dyn Fn(&OFacts) -> bool + Sync),
) -> Outcome {
    let seed = p.seed;
    p.cases(gen_name, n, |i, out| {
        let mut rng = Rng::new(mix(seed, mix(hash_of(&gen_name), i)));
        let shared = rng.chance(2, 3);
        let mut h = gen_obs_history(&mut rng, shared, min, max);
        if i % 16 == 5 {
            // a storm of Pending polls between two updates: dozens of wakers registered at once, by many
            // subscribers and by re-polling the same ones
            h.many = 48;
            let subs = rng.range(2, 44);
            let mut storm: Vec<OOp> = (0..subs).map(OOp::Subscribe).collect();
            storm.push(OOp::Set(0, gen_val(&mut rng)));
            for k in 0..subs {
                storm.push(OOp::Poll(k));
            }
            for _ in 0..rng.range(20, 90) {
                storm.push(OOp::Poll(rng.below(subs)));
            }
            storm.push(if rng.chance(1, 4) { OOp::DropOwner(0) } else { OOp::Set(0, gen_val(&mut rng)) });
            for k in 0..subs {
                storm.push(OOp::Poll(k));
            }
            let at = rng.below(h.ops.len() / 3 + 1);
            h.ops.splice(at..at, storm);
        }
        if i % 128 == 9 {
            // scale: more than a thousand wakers registered at once (by as many pending subscribers, or by a few
            // that are polled again and again), then an update or the close - every one of them is owed a wake
            h.many = 2100;
            h.same_waker = false;
            let subs = if rng.chance(1, 2) { rng.range(1030, 2000) } else { rng.range(2, 6) };
            let mut storm: Vec<OOp> = (0..subs).map(OOp::Subscribe).collect();
            for k in 0..subs {
                storm.push(OOp::Poll(k));
            }
            if subs < 1000 {
                for _ in 0..rng.range(1100, 2500) {
                    storm.push(OOp::Poll(rng.below(subs)));
                }
            }
            storm.push(if rng.chance(1, 2) { OOp::DropOwner(0) } else { OOp::Set(0, gen_val(&mut rng)) });
            for k in 0..subs {
                storm.push(OOp::Poll(k));
            }
            // nothing that adds owners before the storm: the close must be the close
            h.ops.retain(|o| !matches!(o, OOp::Clone(_) | OOp::Upgrade(_) | OOp::CloneFromOther(_) | OOp::HandlesUnderGuard(..)));
            h.ops.truncate(12);
            h.ops.extend(storm);
        }
        if i % 128 == 41 && shared {
            // scale: hundreds to thousands of handles alive at once, then released newest-first (and in other
            // orders), the counts compared after every single step
            h.many = 2100;
            let n = rng.range(520, 2000);
            let mut storm: Vec<OOp> = (0..n).map(|_| OOp::Clone(0)).collect();
            storm.push(OOp::Subscribe(0));
            let newest_first = rng.chance(2, 3);
            let keep = rng.range(1, n / 3);
            for k in (keep..=n).rev() {
                storm.push(OOp::DropOwner(if newest_first { k } else { rng.below(k + 1) }));
            }
            storm.push(OOp::Clone(0));
            storm.push(OOp::Poll(0));
            h.ops.retain(|o| !matches!(o, OOp::DropOwner(_) | OOp::DropOwnerUnwinding(_) | OOp::CloneFromOther(_) | OOp::HandlesUnderGuard(..) | OOp::Clone(_) | OOp::Upgrade(_)));
            h.ops.truncate(10);
            h.ops.extend(storm);
        }
        if i % 8 == 7 {
            // many subscribers, clones and weak references at once (and so many registered wakers)
            h.many = 16;
            let extra: Vec<OOp> = (0..rng.range(8, 24))
                .map(|k| match k % 4 {
                    0 => OOp::Subscribe(k),
                    1 => OOp::Clone(k),
                    2 => OOp::SClone(k),
                    _ => OOp::Poll(k),
                })
                .collect();
            let at = rng.below(h.ops.len() / 2 + 1);
            h.ops.splice(at..at, extra);
        }
        let case = json!({"gen": gen_name, "case": i, "seed": seed});
        judge_flavours(prop, flv, &h, &case, out, nt);
    })
}

pub fn run_c01(p: &Params) -> Outcome {
    let nt = |f: &OFacts| f.ready >= 1 && f.pending >= 1 && f.cond_not_stored >= 1;
    let mut out = exh("C01", p, "c01-exh", Flv::Sync, Focus::Values, if p.thorough { 5 } else { 4 }, 2, &nt);
    out.merge(exh("C01", p, "c01-exh-async", Flv::Async, Focus::Values, if p.thorough { 4 } else { 3 }, 2, &nt));
    // overlapping calls on the async-lock flavour (futures queued behind a guard) are histories of C01 as well
    out.merge(run_guard_scripts("C01", p, p.n(20_000, 300_000)));
    out.merge(rand("C01", p, "c01-rand", Flv::Both, p.n(60_000, 1_000_000), 60, 300, &nt));
    out
}

pub fn run_c02_seq(p: &Params) -> Outcome {
    let nt = |f: &OFacts| f.wake_obligations >= 1;
    let mut out = exh("C02", p, "c02-exh", Flv::Sync, Focus::Wakes, if p.thorough { 7 } else { 6 }, 3, &nt);
    out.merge(exh("C02", p, "c02-exh-async", Flv::Async, Focus::Wakes, if p.thorough { 6 } else { 5 }, 3, &nt));
    out.merge(rand("C02", p, "c02-rand", Flv::Both, p.n(60_000, 1_000_000), 30, 200, &nt));
    // polls that are Pending because the value lock is held (async-lock flavour) are owed a wake as well
    out.merge(run_guard_scripts("C02", p, p.n(20_000, 300_000)));
    out
}

pub fn run_c03_seq(p: &Params) -> Outcome {
    let nt = |f: &OFacts| f.none >= 1 && f.subs_created >= 1 && (f.upgrades_ok + f.upgrades_none + f.into_shared) >= 1;
    let mut out = exh("C03", p, "c03-exh", Flv::Sync, Focus::Handles, if p.thorough { 7 } else { 6 }, 2, &nt);
    out.merge(exh("C03", p, "c03-exh-async", Flv::Async, Focus::Handles, if p.thorough { 6 } else { 5 }, 2, &nt));
    out.merge(rand("C03", p, "c03-rand", Flv::Both, p.n(60_000, 1_000_000), 20, 120, &nt));
    out
}

pub fn run_c19(p: &Params) -> Outcome {
    let nt = |f: &OFacts| f.count_checks >= 2 && f.subs_created >= 1;
    let mut out = exh("C19", p, "c19-exh", Flv::Both, Focus::Handles, if p.thorough { 7 } else { 6 }, 3, &nt);
    out.merge(rand("C19", p, "c19-rand", Flv::Both, p.n(60_000, 1_000_000), 20, 150, &nt));
    out
}

pub fn run_c16(p: &Params) -> Outcome {
    let nt = |f: &OFacts| f.ready >= 1 && f.pending >= 1;
    let mut out = exh("C16", p, "c16-exh-values", Flv::Both, Focus::Values, if p.thorough { 4 } else { 3 }, 2, &nt);
    out.merge(exh("C16", p, "c16-exh-wakes", Flv::Both, Focus::Wakes, if p.thorough { 6 } else { 5 }, 3, &nt));
    out.merge(exh("C16", p, "c16-exh-handles", Flv::Both, Focus::Handles, if p.thorough { 6 } else { 5 }, 2, &nt));
    out.merge(rand("C16", p, "c16-rand", Flv::Both, p.n(60_000, 1_000_000), 40, 250, &nt));
    out.merge(run_guard_scripts("C16", p, p.n(40_000, 600_000)));
    out
}

/// async-lock guard scripts (guards held across other calls). Errors carry the properties they belong
/// to as a "[C01|C16] ..." prefix; untagged ones are C16's.
pub fn run_guard_scripts(prop: &str, p: &Params, n: u64) -> Outcome {
    let seed = p.seed;
    let gen_name = "async-guard-scripts";
    p.cases(gen_name, n, |i, out| {
        out.ev.evaluations += 1;
        let case = json!({"gen": gen_name, "case": i, "seed": seed});
        let mut log = vec![];
        let r = std::panic::catch_unwind(std::panic::AssertUnwindSafe(|| {
            table_reset();
            let mut rng = Rng::new(mix(seed, mix(hash_of(&gen_name), i)));
            let r = guard_script(&mut rng, &mut log);
            let (live, faults, _) = table_finish();
            r.and_then(|x| {
                if live != 0 || !faults.is_empty() {
                    Err(format!("{live} value(s) alive / faults {faults:?} after the script"))
                } else {
                    Ok(x)
                }
            })
        }));
        match r {
            Ok(Ok(kind)) => {
                out.ev.count(match kind {
                    0 => "guard_scripts_writer_holds",
                    1 => "guard_scripts_writer_waits",
                    2 => "guard_scripts_next_and_writer_queued",
                    3 => "guard_scripts_two_queued_setters",
                    4 => "guard_scripts_queued_next_now",
                    5 => "guard_scripts_subscribe_under_guard",
                    _ => "guard_scripts_woken_but_never_polled_again_owners_dropped_first",
                });
                out.ev.nontrivial(hash_of(&log));
                if out.ev.samples.len() < 2 {
                    out.ev.samples.push(json!({"guard_script": log}));
                }
            }
            Ok(Err(what)) => {
                let mine = match what.strip_prefix('[').and_then(|r| r.split_once(']')) {
                    Some((tags, _)) => tags.split('|').any(|t| t == prop),
                    None => prop == "C16",
                };
                if mine {
                    out.violations.push(Violation { property: prop.to_string(), case, history: log, what });
                } else {
                    out.ev.foreign += 1;
                    out.ev.count("foreign_divergence_in_guard_script");
                }
            }
            Err(_) => {
                if prop == "C16" {
                    out.violations.push(Violation {
                        property: prop.to_string(),
                        case,
                        history: log,
                        what: format!("panic in the guard script: {}", last_panic()),
                    });
                } else {
                    out.ev.foreign += 1;
                }
            }
        }
    })
}

// ---------------------------------------------------------------------------------------------
// async-lock guard scripts: guards held across other calls

type AS = SharedObservable<Hk, eyeball::AsyncLock>;
type ASub = eyeball::Subscriber<Hk, eyeball::AsyncLock>;

fn bo<F: Future>(f: F) -> Result<F::Output, String> {
    block_on(f).map_err(|e| format!("{e} although no guard is held"))
}

fn poll_sub(s: &mut ASub, how: usize) -> (Poll<Option<Val>>, std::sync::Arc<FlagWaker>) {
    let (flag, w) = flag_waker();
    let mut cx = Context::from_waker(&w);
    let r = match how % 3 {
        0 => std::pin::Pin::new(s).poll_next(&mut cx).map(|o| o.map(|h| h.val())),
        1 => {
            let mut f = pin!(s.next());
            f.as_mut().poll(&mut cx).map(|o| o.map(|h| h.val()))
        }
        _ => {
            let mut f = pin!(s.next_ref());
            f.as_mut().poll(&mut cx).map(|o| o.map(|g| g.val()))
        }
    };
    (r, flag)
}

fn guard_script(rng: &mut Rng, log: &mut Vec<String>) -> Result<u8, String> {
    let v0 = gen_val(rng);
    let ob: AS = SharedObservable::new_async(Hk::new(v0));
    let ob2 = ob.clone();
    let mut value = v0;
    let mut version = 1u64;
    log.push(format!("new_async({v0:?})"));
    let k = rng.range(1, 3);
    let mut subs: Vec<ASub> = vec![];
    let mut observed: Vec<u64> = vec![];
    for _ in 0..k {
        if rng.chance(1, 3) {
            subs.push(ob.subscribe_reset());
            observed.push(0);
            log.push("subscribe_reset".into());
        } else {
            subs.push(bo(ob.subscribe())?);
            observed.push(version);
            log.push("subscribe".into());
        }
    }
    // bring some subscribers to a registered-Pending state first
    let mut reg_flags: Vec<Option<std::sync::Arc<FlagWaker>>> = vec![None; k];
    for i in 0..k {
        if rng.chance(1, 2) {
            let (r, f) = poll_sub(&mut subs[i], rng.below(3));
            let expect = if observed[i] < version { Poll::Ready(Some(value)) } else { Poll::Pending };
            log.push(format!("poll s{i} -> {r:?}"));
            if r != expect {
                return Err(format!("s{i}: {r:?}, expected {expect:?}"));
            }
            if r.is_ready() {
                observed[i] = version;
            } else {
                reg_flags[i] = Some(f);
            }
        }
    }
    let script = rng.below(7) as u8;
    if script == 6 {
        // ---- subscribers are polled while a write guard is held (their lock futures queue up behind it), the guard
        // is released (they are woken) - and then nobody polls them again: every owner goes away first, the
        // subscribers afterwards, some of them polled once more, some not. Nothing to compare except that the woken
        // ones were woken; the point is the order in which the queued lock futures and the lock they queue on are
        // released (memory verdict from the ASan / Miri passes over these scripts, drop accounting natively).
        let mut g = bo(ob.write())?;
        log.push("write guard acquired".into());
        let mut flags = vec![];
        for i in 0..k {
            let (r, f) = poll_sub(&mut subs[i], rng.below(3));
            log.push(format!("poll s{i} while the write guard is held -> {r:?}"));
            if r.is_ready() {
                return Err(format!("[C04|C16] s{i} answered {r:?} while a write guard is held"));
            }
            flags.push(f);
        }
        if rng.chance(1, 2) {
            let v = gen_val(rng);
            let _ = ObservableWriteGuard::set(&mut g, Hk::new(v));
            log.push(format!("guard.set({v:?})"));
        }
        drop(g);
        log.push("write guard dropped".into());
        for (i, f) in flags.iter().enumerate() {
            if !f.woken() {
                return Err(format!("[C02|C16] s{i} was polled while a write guard was held and not woken when the guard was dropped"));
            }
        }
        drop(ob);
        drop(ob2);
        log.push("every owner dropped (subscribers woken but not polled again)".into());
        while !subs.is_empty() {
            let mut s = subs.swap_remove(rng.below(subs.len()));
            if rng.chance(1, 3) {
                let (r, _f) = poll_sub(&mut s, 0);
                log.push(format!("a subscriber is polled once more -> {r:?}"));
                if r != Poll::Ready(None) {
                    return Err(format!("[C03|C16] every owner is gone but a subscriber answers {r:?}"));
                }
            }
            drop(s);
        }
        log.push("subscribers dropped".into());
        return Ok(6);
    }
    if script == 5 {
        // ---- subscribe() started while a write guard is held: the new subscriber starts from the version
        // current when the call completes, so without a later update its first poll is Pending
        let mut g = bo(ob.write())?;
        log.push("write guard acquired".into());
        let mut sf = Box::pin(ob2.subscribe());
        let (_fl, wk) = flag_waker();
        let mut early = match sf.as_mut().poll(&mut Context::from_waker(&wk)) {
            Poll::Ready(s) => Some(s),
            Poll::Pending => None,
        };
        log.push(format!("subscribe() polled while the write guard is held -> {}", if early.is_some() { "Ready" } else { "Pending" }));
        if rng.chance(1, 2) {
            let v = gen_val(rng);
            let prev = ObservableWriteGuard::set(&mut g, Hk::new(v)).val();
            if prev != value {
                return Err(format!("guard.set returned {prev:?}, previous value is {value:?}"));
            }
            value = v;
            version += 1;
            log.push(format!("guard.set({v:?})"));
        }
        drop(g);
        log.push("guard dropped".into());
        let mut fresh = match early.take() {
            Some(s) => s,
            None => {
                let mut got = None;
                for _ in 0..8 {
                    let (_f, w) = flag_waker();
                    if let Poll::Ready(s) = sf.as_mut().poll(&mut Context::from_waker(&w)) {
                        got = Some(s);
                        break;
                    }
                }
                match got {
                    Some(s) => s,
                    None => return Err("subscribe() did not complete after the write guard was dropped".into()),
                }
            }
        };
        drop(sf);
        let got = bo(fresh.get())?.val();
        if got != value {
            return Err(format!("[C01|C16] the new subscriber reads {got:?}, the stored value is {value:?}"));
        }
        let (r, _f) = poll_sub(&mut fresh, rng.below(3));
        log.push(format!("first poll of the new subscriber -> {r:?}"));
        // (if subscribe() completed while the guard was held and the guard stored a value afterwards, that
        // value is an update the subscriber has not observed: Ready is right then)
        // (subscribe() overlaps whatever the guard stored after the call's first poll: the call may take effect
        // before or after that store, so Ready with the stored value is right as well then)
        if r != Poll::Pending && !(r == Poll::Ready(Some(value)) && log.iter().any(|l| l.starts_with("guard.set"))) {
            return Err(format!("[C01|C16] a subscriber created by subscribe() while a write guard was held answered {r:?} on its first poll although nothing was stored after the call completed"));
        }
        drop(fresh);
        for i in 0..k {
            let (r, f) = poll_sub(&mut subs[i], rng.below(3));
            let expect = if observed[i] < version { Poll::Ready(Some(value)) } else { Poll::Pending };
            if r != expect {
                return Err(format!("[C01|C16] s{i} answered {r:?}, expected {expect:?}"));
            }
            if r.is_ready() {
                observed[i] = version;
                reg_flags[i] = None;
            } else {
                reg_flags[i] = Some(f);
            }
        }
    } else if script == 3 {
        // ---- two writers queue behind a write guard, at least one of them conditional, both storing the same
        // value: the pair of results must be what one of the two orders gives
        let v = if rng.chance(1, 4) { value } else { gen_val(rng) };
        let a_hash = rng.chance(1, 3);
        let b_kind = rng.below(3); // 0 = set, 1 = set_if_not_eq, 2 = set_if_hash_not_eq
        let g = bo(ob.write())?;
        log.push("write guard acquired".into());
        let mut fa: std::pin::Pin<Box<dyn Future<Output = Option<Val>> + '_>> = if a_hash {
            Box::pin(async { ob2.set_if_hash_not_eq(Hk::new(v)).await.map(|h| h.val()) })
        } else {
            Box::pin(async { ob2.set_if_not_eq(Hk::new(v)).await.map(|h| h.val()) })
        };
        let mut fb: std::pin::Pin<Box<dyn Future<Output = Option<Val>> + '_>> = match b_kind {
            0 => Box::pin(async { Some(ob.set(Hk::new(v)).await.val()) }),
            1 => Box::pin(async { ob.set_if_not_eq(Hk::new(v)).await.map(|h| h.val()) }),
            _ => Box::pin(async { ob.set_if_hash_not_eq(Hk::new(v)).await.map(|h| h.val()) }),
        };
        let a_first = rng.chance(1, 2);
        let (_f1, w1) = flag_waker();
        let (_f2, w2) = flag_waker();
        let (pa, pb) = if a_first {
            let pa = fa.as_mut().poll(&mut Context::from_waker(&w1));
            (pa, fb.as_mut().poll(&mut Context::from_waker(&w2)))
        } else {
            let pb = fb.as_mut().poll(&mut Context::from_waker(&w2));
            (fa.as_mut().poll(&mut Context::from_waker(&w1)), pb)
        };
        if pa.is_ready() || pb.is_ready() {
            return Err("a setter completed while a write guard was held".into());
        }
        log.push(format!(
            "A = {}({v:?}) and B = {}({v:?}) polled while the write guard is held ({} first) -> Pending",
            if a_hash { "set_if_hash_not_eq" } else { "set_if_not_eq" },
            ["set", "set_if_not_eq", "set_if_hash_not_eq"][b_kind],
            if a_first { "A" } else { "B" }
        ));
        drop(g);
        let (mut ra, mut rb): (Option<Option<Val>>, Option<Option<Val>>) = (None, None);
        let start_a = rng.chance(1, 2);
        for round in 0..16 {
            let a_turn = (round % 2 == 0) == start_a;
            let (_f, w) = flag_waker();
            if a_turn && ra.is_none() {
                if let Poll::Ready(x) = fa.as_mut().poll(&mut Context::from_waker(&w)) {
                    ra = Some(x);
                }
            } else if !a_turn && rb.is_none() {
                if let Poll::Ready(x) = fb.as_mut().poll(&mut Context::from_waker(&w)) {
                    rb = Some(x);
                }
            }
            if ra.is_some() && rb.is_some() {
                break;
            }
        }
        drop(fa);
        drop(fb);
        let (Some(ra), Some(rb)) = (ra, rb) else {
            return Err(format!("after the write guard was dropped the two queued setters did not complete (A: {ra:?}, B: {rb:?})"));
        };
        log.push(format!("A -> {ra:?}; B -> {rb:?}"));
        // sequential explanations
        let differs = |cur: Val, new: Val, by_hash: bool| if by_hash { crate::engine_obs::hash_val(cur) != crate::engine_obs::hash_val(new) } else { cur != new };
        let run_a = |cur: Val| -> (Option<Val>, Val, u64) { if differs(cur, v, a_hash) { (Some(cur), v, 1) } else { (None, cur, 0) } };
        let run_b = |cur: Val| -> (Option<Val>, Val, u64) {
            match b_kind {
                0 => (Some(cur), v, 1),
                1 => if differs(cur, v, false) { (Some(cur), v, 1) } else { (None, cur, 0) },
                _ => if differs(cur, v, true) { (Some(cur), v, 1) } else { (None, cur, 0) },
            }
        };
        let ab = {
            let (xa, c1, n1) = run_a(value);
            let (xb, c2, n2) = run_b(c1);
            (xa, xb, c2, n1 + n2)
        };
        let ba = {
            let (xb, c1, n1) = run_b(value);
            let (xa, c2, n2) = run_a(c1);
            (xa, xb, c2, n1 + n2)
        };
        let got_val = bo(ob.get())?.val();
        let m = [ab, ba].into_iter().find(|(xa, xb, fin, _)| *xa == ra && *xb == rb && *fin == got_val);
        let Some((_, _, fin, bumps)) = m else {
            return Err(format!(
                "[C01|C04|C16] two queued setters storing {v:?} over {value:?} returned A = {ra:?}, B = {rb:?} (value now {got_val:?}); A then B gives {:?}, B then A gives {:?}",
                (ab.0, ab.1, ab.2),
                (ba.0, ba.1, ba.2)
            ));
        };
        value = fin;
        version += bumps;
        for i in 0..k {
            let (r, _f) = poll_sub(&mut subs[i], rng.below(3));
            let expect = if observed[i] < version { Poll::Ready(Some(value)) } else { Poll::Pending };
            if r != expect {
                return Err(format!("[C01|C16] after the two setters s{i} answered {r:?}, expected {expect:?}"));
            }
            if r.is_ready() {
                observed[i] = version;
                reg_flags[i] = None;
            } else {
                reg_flags[i] = Some(_f);
            }
        }
    } else if script == 4 {
        // ---- next_now() / next_ref_now() started while a write guard is held (the lock is contended when the
        // call starts): it returns the value stored through the guard and marks it observed
        let i = rng.below(k);
        let v1 = gen_val(rng);
        let by_ref = rng.chance(1, 2);
        let mut g = bo(ob.write())?;
        log.push("write guard acquired".into());
        let got: Val;
        {
            let sub = &mut subs[i];
            let mut nf: std::pin::Pin<Box<dyn Future<Output = Val> + '_>> = if by_ref {
                Box::pin(async move { sub.next_ref_now().await.val() })
            } else {
                Box::pin(async move { sub.next_now().await.val() })
            };
            let (fl, wk) = flag_waker();
            if nf.as_mut().poll(&mut Context::from_waker(&wk)).is_ready() {
                return Err("next_now() completed while a write guard was held".into());
            }
            let prev0 = ObservableWriteGuard::set(&mut g, Hk::new(v1)).val();
            if prev0 != value {
                return Err(format!("guard.set returned {prev0:?}, previous value is {value:?}"));
            }
            drop(g);
            log.push(format!("s{i}.{}() polled while the write guard is held -> Pending; guard.set({v1:?}); guard dropped", if by_ref { "next_ref_now" } else { "next_now" }));
            if !fl.woken() {
                return Err("the queued next_now() was not woken when the write guard was dropped".into());
            }
            let mut r = None;
            for _ in 0..8 {
                let (_f, w) = flag_waker();
                if let Poll::Ready(x) = nf.as_mut().poll(&mut Context::from_waker(&w)) {
                    r = Some(x);
                    break;
                }
            }
            let Some(x) = r else { return Err("the queued next_now() did not complete after the guard was dropped".into()) };
            got = x;
        }
        value = v1;
        version += 1;
        log.push(format!("next_now -> {got:?}"));
        if got != v1 {
            return Err(format!("[C01|C16] next_now() completed after the guard stored {v1:?} but returned {got:?}"));
        }
        let (r, f) = poll_sub(&mut subs[i], rng.below(3));
        log.push(format!("poll s{i} -> {r:?}"));
        if r != Poll::Pending {
            return Err(format!("[C01|C16] next_now() handed out the latest value {v1:?} (which marks it observed), yet the following poll answers {r:?}"));
        }
        observed[i] = version;
        reg_flags[i] = Some(f);
        for j in 0..k {
            if j != i {
                let (r, _f) = poll_sub(&mut subs[j], rng.below(3));
                if r != Poll::Ready(Some(value)) {
                    return Err(format!("s{j} answered {r:?} after the update through the guard, expected Ready(Some({value:?}))"));
                }
                observed[j] = version;
                reg_flags[j] = None;
            }
        }
    } else if script == 2 {
        // ---- a subscriber's next()/next_ref() future and a writer both queue behind a write guard
        let i = rng.below(k);
        let v1 = gen_val(rng);
        let v2 = gen_val(rng);
        let how = rng.below(2);
        let mut g = bo(ob.write())?;
        log.push("write guard acquired".into());
        let handed: Option<Val>;
        {
            let sub = &mut subs[i];
            let mut nf: std::pin::Pin<Box<dyn Future<Output = Option<Val>> + '_>> = if how == 0 {
                Box::pin(async move { sub.next().await.map(|h| h.val()) })
            } else {
                Box::pin(async move { sub.next_ref().await.map(|g| g.val()) })
            };
            let (fl_n, wk_n) = flag_waker();
            if nf.as_mut().poll(&mut Context::from_waker(&wk_n)).is_ready() {
                return Err("a subscriber's next() completed while a write guard was held".into());
            }
            log.push(format!("s{i}.{}() polled while the write guard is held -> Pending", if how == 0 { "next" } else { "next_ref" }));
            let mut wf = pin!(ob2.set(Hk::new(v2)));
            let (fl_w, wk_w) = flag_waker();
            if wf.as_mut().poll(&mut Context::from_waker(&wk_w)).is_ready() {
                return Err("a set() completed while a write guard was held".into());
            }
            log.push(format!("set({v2:?}) polled while the write guard is held -> Pending"));
            let prev0 = ObservableWriteGuard::set(&mut g, Hk::new(v1)).val();
            if prev0 != value {
                return Err(format!("guard.set returned {prev0:?}, previous value is {value:?}"));
            }
            log.push(format!("guard.set({v1:?}); guard dropped"));
            drop(g);
            if !fl_n.woken() && !fl_w.woken() {
                return Err("neither the queued subscriber nor the queued writer was woken when the write guard was dropped".into());
            }
            // drive both to completion, alternating
            let mut got_n: Option<Option<Val>> = None;
            let mut got_w: Option<Val> = None;
            for _ in 0..12 {
                if got_n.is_none() {
                    let (_f, w) = flag_waker();
                    if let Poll::Ready(x) = nf.as_mut().poll(&mut Context::from_waker(&w)) {
                        got_n = Some(x);
                    }
                }
                if got_w.is_none() {
                    let (_f, w) = flag_waker();
                    if let Poll::Ready(x) = wf.as_mut().poll(&mut Context::from_waker(&w)) {
                        got_w = Some(x.val());
                    }
                }
                if got_n.is_some() && got_w.is_some() {
                    break;
                }
            }
            let (Some(n), Some(w)) = (got_n, got_w) else {
                return Err(format!("after the write guard was dropped the queued operations did not complete (next: {got_n:?}, set: {got_w:?})"));
            };
            log.push(format!("next -> {n:?}; set -> {w:?}"));
            if w != v1 {
                return Err(format!("the queued set returned {w:?}, the value stored before it was {v1:?}"));
            }
            match n {
                Some(x) if x == v1 || x == v2 => handed = Some(x),
                other => return Err(format!("the queued next() returned {other:?}, expected the value stored through the guard {v1:?} or the later {v2:?}")),
            }
        }
        value = v2;
        version += 2;
        // C01: ready exactly when an unobserved update exists
        let (r, _f) = poll_sub(&mut subs[i], 0);
        log.push(format!("poll s{i} -> {r:?}"));
        if handed == Some(v2) && v1 != v2 {
            if r != Poll::Pending {
                return Err(format!("[C01|C16] s{i} was handed the latest value {v2:?} by next(), yet the following poll answers {r:?} although no update happened in between"));
            }
        } else if v1 != v2 {
            if r != Poll::Ready(Some(v2)) {
                return Err(format!("[C01|C16] s{i} was handed {v1:?}; the later update to {v2:?} must be delivered next, got {r:?}"));
            }
        }
        observed[i] = version;
        reg_flags[i] = None;
        // the other subscribers catch up
        for j in 0..k {
            if j != i {
                let (r, _f) = poll_sub(&mut subs[j], rng.below(3));
                if r != Poll::Ready(Some(value)) {
                    return Err(format!("s{j} answered {r:?} after two updates, expected Ready(Some({value:?}))"));
                }
                observed[j] = version;
                reg_flags[j] = None;
            }
        }
    } else if script == 0 {
        // ---- a write guard is held across subscriber polls
        let mut g = bo(ob.write())?;
        log.push("write guard acquired".into());
        let mut lock_flags: Vec<Option<std::sync::Arc<FlagWaker>>> = vec![None; k];
        for i in 0..k {
            if rng.chance(2, 3) {
                let (r, f) = poll_sub(&mut subs[i], rng.below(3));
                log.push(format!("poll s{i} while the write guard is held -> {r:?}"));
                if r != Poll::Pending {
                    return Err(format!("s{i} polled while a write guard is held answered {r:?}"));
                }
                lock_flags[i] = Some(f);
                reg_flags[i] = None;
            }
        }
        if ob2.try_read().is_some() || ob2.try_write().is_some() {
            return Err("try_read/try_write succeeded while a write guard is held".into());
        }
        let before = version;
        for _ in 0..rng.below(3) {
            let v = gen_val(rng);
            match rng.below(4) {
                0 => {
                    let prev = ObservableWriteGuard::set(&mut g, Hk::new(v)).val();
                    log.push(format!("guard.set({v:?}) -> {prev:?}"));
                    if prev != value {
                        return Err(format!("guard.set returned {prev:?}, previous value is {value:?}"));
                    }
                    value = v;
                    version += 1;
                }
                1 => {
                    let r = ObservableWriteGuard::set_if_not_eq(&mut g, Hk::new(v)).map(|h| h.val());
                    log.push(format!("guard.set_if_not_eq({v:?}) -> {r:?}"));
                    let expect = if v != value { Some(value) } else { None };
                    if r != expect {
                        return Err(format!("guard.set_if_not_eq returned {r:?}, expected {expect:?}"));
                    }
                    if expect.is_some() {
                        value = v;
                        version += 1;
                    }
                }
                2 => {
                    ObservableWriteGuard::update_if(&mut g, |x| {
                        *x = Hk::new(v);
                        false
                    });
                    log.push(format!("guard.update_if(store {v:?}, false)"));
                    value = v;
                }
                _ => {
                    ObservableWriteGuard::update(&mut g, |x| *x = Hk::new(v));
                    log.push(format!("guard.update(store {v:?})"));
                    value = v;
                    version += 1;
                }
            }
            if (*g).val() != value {
                return Err("the write guard does not dereference to the stored value".into());
            }
        }
        drop(g);
        log.push("write guard dropped".into());
        // subscribers registered *before* the guard must have been woken by updates made through it - at the
        // latest when the guard is released (before that the update is not available to anybody)
        if version > before {
            for i in 0..k {
                if let Some(f) = &reg_flags[i] {
                    if !f.woken() {
                        return Err(format!("[C02|C16] s{i} was Pending before the guard; an update through the guard did not wake it"));
                    }
                }
            }
        }
        // C19 at this quiescent moment: some subscribers own a granted, not yet polled lock
        let counts = (ob.observable_count(), ob.subscriber_count(), ob.strong_count());
        if counts != (2, k, 2 + k) {
            return Err(format!("[C19|C16] after the write guard was dropped (observable_count, subscriber_count, strong_count) = {counts:?}, live = (2, {k}, {})", 2 + k));
        }
        for i in 0..k {
            if let Some(f) = &lock_flags[i] {
                if observed[i] < version && !f.woken() {
                    return Err(format!("[C02|C16] s{i} was polled while the write guard was held; dropping the guard did not wake it although an update is available"));
                }
            }
        }
        // every subscriber that waited for the lock is polled again (it holds a granted permit)
        for i in 0..k {
            if lock_flags[i].is_some() || rng.chance(1, 2) {
                let (r, f) = poll_sub(&mut subs[i], rng.below(3));
                let expect = if observed[i] < version { Poll::Ready(Some(value)) } else { Poll::Pending };
                log.push(format!("poll s{i} -> {r:?}"));
                if r != expect {
                    return Err(format!("after the guard was dropped s{i} answered {r:?}, expected {expect:?}"));
                }
                if r.is_ready() {
                    observed[i] = version;
                    reg_flags[i] = None;
                } else {
                    reg_flags[i] = Some(f);
                }
            } else if lock_flags[i].is_none() {
                // untouched
            }
        }
    } else {
        // ---- a read guard is held, writers wait
        let holder = rng.below(3);
        let v = gen_val(rng);
        let v2 = gen_val(rng);
        let two_writers = rng.chance(1, 2);
        let prev;
        {
            // the guard lives in this block
            let mut holder_sub: Option<ASub> = None;
            let guard_ob;
            let guard_sub;
            if holder == 0 {
                guard_ob = Some(bo(ob.read())?);
                guard_sub = None;
                log.push("read guard (SharedObservable::read) acquired".into());
            } else {
                holder_sub = Some(ob.subscribe_reset());
                guard_ob = None;
                let hs = holder_sub.as_mut().unwrap();
                guard_sub = Some(if holder == 1 { bo(hs.next_ref_now())? } else { bo(hs.read())? });
                log.push("read guard (subscriber) acquired".into());
            }
            let seen = guard_ob.as_ref().map(|g| g.val()).or(guard_sub.as_ref().map(|g| g.val())).unwrap();
            if seen != value {
                return Err(format!("read guard shows {seen:?}, stored value is {value:?}"));
            }
            if ob2.try_write().is_some() {
                return Err("try_write succeeded while a read guard is held".into());
            }
            let mut w1 = pin!(ob.set(Hk::new(v)));
            let (fw1, wk1) = flag_waker();
            let r1 = w1.as_mut().poll(&mut Context::from_waker(&wk1));
            log.push(format!("set({v:?}) polled while the read guard is held -> pending={}", r1.is_pending()));
            if r1.is_ready() {
                return Err("a set() completed while a read guard was alive".into());
            }
            let mut w2 = pin!(ob2.update(|x| *x = Hk::new(v2)));
            let (fw2, wk2) = flag_waker();
            if two_writers {
                let r2 = w2.as_mut().poll(&mut Context::from_waker(&wk2));
                if r2.is_ready() {
                    return Err("an update() completed while a read guard was alive".into());
                }
                log.push("update() polled while the read guard is held -> pending".into());
            }
            drop(guard_ob);
            drop(guard_sub);
            log.push("read guard dropped".into());
            // "a writer waiting for the lock is woken when the lock is released": at least one of the
            // waiting writers (which one is the lock's business)
            if !fw1.woken() && !(two_writers && fw2.woken()) {
                return Err("no waiting writer was woken when the read guard was dropped".into());
            }
            // drive the waiting writers to completion, alternating, with a logical bound
            let mut got1: Option<Val> = None;
            let mut got2 = !two_writers;
            let mut order = vec![];
            for _ in 0..12 {
                if got1.is_none() {
                    let (_f, wk) = flag_waker();
                    if let Poll::Ready(p) = w1.as_mut().poll(&mut Context::from_waker(&wk)) {
                        got1 = Some(p.val());
                        order.push(1);
                    }
                }
                if !got2 {
                    let (_f, wk) = flag_waker();
                    if w2.as_mut().poll(&mut Context::from_waker(&wk)).is_ready() {
                        got2 = true;
                        order.push(2);
                    }
                }
                if got1.is_some() && got2 {
                    break;
                }
            }
            let Some(p1) = got1 else {
                return Err("the waiting set() is still pending after the read guard was dropped and 12 further polls".into());
            };
            if !got2 {
                return Err("the second waiting writer is still pending after the read guard was dropped and 12 further polls".into());
            }
            log.push(format!("set completed -> {p1:?}; completion order {order:?}"));
            prev = p1;
            if order.first() == Some(&2) {
                // the update ran first: the set saw its value
                if prev != v2 {
                    return Err(format!("set returned {prev:?} although the update that stored {v2:?} completed before it"));
                }
                value = v;
            } else {
                if prev != value {
                    return Err(format!("set returned {prev:?}, previous value is {value:?}"));
                }
                value = if two_writers { v2 } else { v };
            }
            version += if two_writers { 2 } else { 1 };
            drop(holder_sub);
        }
        for i in 0..k {
            if let Some(f) = &reg_flags[i] {
                if !f.woken() {
                    return Err(format!("[C02|C16] s{i} was Pending; the completed write did not wake it"));
                }
            }
        }
    }
    // afterwards the lock must be free again: a plain write completes and reaches everybody
    let v = gen_val(rng);
    let prev = bo(ob.set(Hk::new(v)))?.val();
    log.push(format!("set({v:?}) -> {prev:?}"));
    if prev != value {
        return Err(format!("set returned {prev:?}, previous value is {value:?}"));
    }
    value = v;
    version += 1;
    for i in 0..k {
        if let Some(f) = &reg_flags[i] {
            if !f.woken() {
                return Err(format!("[C02|C16] s{i} was Pending; set() did not wake it"));
            }
        }
        let (r, _f) = poll_sub(&mut subs[i], rng.below(3));
        if r != Poll::Ready(Some(value)) {
            return Err(format!("after set() s{i} answered {r:?}, expected Ready(Some({value:?}))"));
        }
        let (r, _f) = poll_sub(&mut subs[i], rng.below(3));
        if r != Poll::Pending {
            return Err(format!("s{i} answered {r:?} right after a delivery, expected Pending"));
        }
    }
    if bo(ob.get())?.val() != value {
        return Err("get() does not return the stored value".into());
    }
    drop(ob);
    drop(ob2);
    for i in 0..k {
        let (r, _f) = poll_sub(&mut subs[i], 0);
        if r != Poll::Ready(None) {
            return Err(format!("after the last owner was dropped s{i} answered {r:?}"));
        }
    }
    let _ = version;
    Ok(script)
}
